#!/bin/bash
# tools/mutest.sh <patch.diff> <harness-mode> <prop> [extra env]: apply a seeded change to /repo, run one harness mode, undo.
set -u
patch=$1; mode=$2; prop=$3
export GOFLAGS=-mod=mod GOPROXY=off GOSUMDB=off GOTOOLCHAIN=local
cd /repo && git apply "$patch" || { echo "patch does not apply"; exit 2; }
trap 'cd /repo && git checkout -- . && git clean -fdq -- . >/dev/null 2>&1' EXIT
cd /verif/harness && go build -tags verif -o /tmp/vh-mut . || exit 3
/tmp/vh-mut $mode -prop $prop -seed ${VERIF_SEED:-1} -tier ${VERIF_TIER:-quick} -out /tmp/mut_rep.json
python3 /verif/tools/mutsum.py /tmp/mut_rep.json
