#!/usr/bin/env python3
"""Writes the seeded-change table into DESIGN.md from seeded/caught.json and the meta files."""
import json, os, re
caught = json.load(open('/verif/seeded/caught.json'))
rows = ['| seeded change | breaks | what it needs to manifest (summary) | caught by quick check | how |', '|---|---|---|---|---|']
for sid in sorted(caught):
    meta_p = f'/verif/seeded/{sid}/meta.json'
    needs = ''
    if os.path.exists(meta_p):
        m = json.load(open(meta_p))
        needs = m.get('needs_to_manifest') or ('revert of ' + m.get('reverts_commit', '') + ': ' + m.get('what_returns', ''))
        needs = re.sub(r'\s+', ' ', needs)[:230]
    by, how = caught[sid]
    rows.append(f"| `seeded/{sid}` | {(json.load(open(meta_p)).get('breaks_property') if os.path.exists(meta_p) else sid.split('-')[0])} | {needs.replace('|', '/')} | {by} | {how.replace('|', '/')} |")
s = open('/verif/DESIGN.md').read()
b, e = '<!-- SEEDED-TABLE-BEGIN -->', '<!-- SEEDED-TABLE-END -->'
s = s[:s.index(b) + len(b)] + '\n' + '\n'.join(rows) + '\n' + s[s.index(e):]
open('/verif/DESIGN.md', 'w').write(s)
print(len(rows) - 2, 'rows')
