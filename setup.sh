#!/bin/sh
# Builds the framework from files on disk only (offline).
set -e
cd "$(dirname "$0")"
export GOFLAGS=-mod=mod GOPROXY=off GOSUMDB=off GOTOOLCHAIN=local
mkdir -p .build evidence replays lean/ColumnVerif/Generated
if [ -d extract ]; then
  (cd extract && go build -o ../.build/extract . && ../.build/extract /repo > ../lean/ColumnVerif/Generated/Skeleton.lean.tmp \
     && mv ../lean/ColumnVerif/Generated/Skeleton.lean.tmp ../lean/ColumnVerif/Generated/Skeleton.lean)
fi
(cd lean && lake build)
cp /repo/go.sum harness/go.sum
(cd harness && go build -tags verif -o ../.build/harness .)
echo setup done
