// extract regenerates lean/ColumnVerif/Generated/Skeleton.lean from the sources under /repo.
//
// It is a pretty-printer: for a fixed list of protocol-critical functions it prints, in source
// order, a flat token list (depth, kind, name-id) of calls, deferred calls, go statements,
// assignments to a fixed set of shared fields, returns, closure / loop / branch boundaries and
// branch conditions. All interpretation of the tokens is Lean code (Conc/Skel.lean); the
// obligations over the generated lists are re-checked by the kernel on every run.
package main

import (
	"bytes"
	"fmt"
	"go/ast"
	"go/parser"
	"go/printer"
	"go/token"
	"os"
	"path/filepath"
	"sort"
	"strings"
)

// token kinds
const (
	kCall = iota + 1
	kDefer
	kGo
	kAssign
	kRet
	kClosureOpen
	kClosureClose
	kIfOpen
	kIfClose
	kLoopOpen
	kLoopClose
	kCond
	kElse
	kExact // a call whose full text (with arguments) is a dictionary entry
)

// the dictionary of call targets / fields / conditions (ids are mirrored in Conc/Skel.lean;
// `dictVersion` below must change whenever the table does)
var dict = []string{
	"",                        // 0 = anything else
	"commit.Next",             // 1
	"lock.Lock",               // 2   (sharded chunk latch or a mutex, by receiver text)
	"lock.Unlock",             // 3
	"lock.RLock",              // 4
	"lock.RUnlock",            // 5
	"fn",                      // 6   delegate / callback of rangeWrite, readChunk
	"f",                       // 7   callback of QueryAt / rangeRead / rangeReadPair
	"commits",                 // 8   assignment to owner.commits[...]
	"fill",                    // 9
	"count",                   // 10
	"txn.commitMarkers",       // 11
	"txn.commitUpdates",       // 12
	"isSnapshotting",          // 13
	"dst.Append",              // 14
	"logger.Append",           // 15
	"txn.rangeWrite",          // 16
	"commit.ChunkAt",          // 17
	"commit.Chunk",            // 18  (type conversion)
	"recorderOpen",            // 19
	"recorderClose",           // 20
	"recorder.Close",          // 21
	"os.Remove",               // 22
	"writeState",              // 23
	"recorder.Copy",           // 24
	"slock.RLock",             // 25
	"slock.RUnlock",           // 26
	"slock.Lock",              // 27
	"slock.Unlock",            // 28
	"clone.ID",                // 29  assignment
	"commit.Clone",            // 30
	"findFreeIndex",           // 31
	"fill.Set",                // 32
	"fill.Remove",             // 33
	"StoreUint64",             // 34
	"Apply",                   // 35  columns[0].Apply / v.Apply / column.Apply / index.Apply
	"reader.Range",            // 36
	"now.After",               // 37
	"ExpiresAt",               // 38
	"txn.DeleteAt",            // 39
	"ok && now.After(expiresAt)",   // 40 condition
	"ok && expireAt != 0",          // 41 condition
	"seek",                    // 42  assignment / delete on the key table
	"WriteTo",                 // 43
	"Flush",                   // 44
	"io.Copy",                 // 45
	"Seek",                    // 46
	"ReadFrom",                // 47
	"log.Close",               // 48
	"CompareAndSwapPointer",   // 49
	"StorePointer",            // 50
	"LoadPointer",             // 51
	"readChunk",               // 52
	"txn.owner.next",          // 53
	"txn.owner.free",          // 54
	"OffsetOf",                // 55
	"txn.insert",              // 56
	"verifYield",              // 57
	"record",                  // 58 assignment
	"txn.reset",               // 59
	"commit.ID > lastCommit",  // 60 condition
	"c.Replay",                // 61
	"ttl > 0",                 // 62 condition
	"!changedRows && !updated", // 63 condition
	"changedRows",             // 64 condition
	"AddUint64",               // 65
	"commit.ChunkAt(index)",     // 66 exact call text (kind 14)
	"lock.RLock(uint(chunk))",   // 67
	"lock.RUnlock(uint(chunk))", // 68
	"lock.Lock(uint(chunk))",    // 69
	"lock.Unlock(uint(chunk))",  // 70
	"column.Snapshot",           // 71  back-fill read of a chunk of the target column
	"Grow",                      // 72
	"cols.Range",                // 73
	"cols.Store",                // 74  registry update (Collection) / publication of the registry slice (columns)
	"copy",                      // 75
	"make",                      // 76
	"compressor.Close",          // 77  the state compressor of Snapshot
	"output.Close",              // 78  the compressor of a commit log
	"closer.Close",              // 79  the file of a commit log
}

const dictVersion = 6

type fnSpec struct {
	file string
	recv string // receiver type name ("" for functions)
	name string
}

var fns = []fnSpec{
	{"txn_lock.go", "Txn", "rangeWrite"},
	{"txn_lock.go", "Txn", "QueryAt"},
	{"txn_lock.go", "Txn", "rangeRead"},
	{"txn_lock.go", "Txn", "rangeReadPair"},
	{"txn.go", "Txn", "commit"},
	{"txn.go", "Txn", "commitUpdates"},
	{"txn.go", "Txn", "commitMarkers"},
	{"txn.go", "Txn", "rollback"},
	{"txn.go", "Txn", "insert"},
	{"txn.go", "Txn", "InsertKey"},
	{"txn.go", "Txn", "UpsertKey"},
	{"collection.go", "Collection", "next"},
	{"collection.go", "Collection", "free"},
	{"snapshot.go", "Collection", "Snapshot"},
	{"snapshot.go", "Collection", "recorderOpen"},
	{"snapshot.go", "Collection", "recorderClose"},
	{"snapshot.go", "Collection", "readChunk"},
	{"snapshot.go", "Collection", "Restore"},
	{"commit/commit.go", "Commit", "Clone"},
	{"commit/log.go", "Channel", "Append"},
	{"commit/log.go", "Log", "Append"},
	{"commit/log.go", "Log", "Range"},
	{"commit/log.go", "Log", "Copy"},
	{"column_expire.go", "Collection", "vacuum"},
	{"column_expire.go", "rwTTL", "ExpiresAt"},
	{"column_expire.go", "", "writeTTL"},
	{"column_strings.go", "columnKey", "Apply"},
	{"column_strings.go", "columnKey", "OffsetOf"},
	{"collection.go", "Collection", "CreateIndex"},
	{"collection.go", "Collection", "CreateSortIndex"},
	{"txn.go", "Txn", "commitCapacity"},
	{"collection.go", "columns", "Store"},
	{"collection.go", "columns", "DeleteIndex"},
	{"commit/log.go", "Log", "Close"},
}

type tok struct{ depth, kind, name int }

func exprText(fset *token.FileSet, e ast.Expr) string {
	var b bytes.Buffer
	printer.Fprint(&b, fset, e)
	return b.String()
}

func intern(s string) int {
	for i, d := range dict {
		if i > 0 && d == s {
			return i
		}
	}
	return 0
}

// callName maps a call target to a dictionary entry: exact text first, then the last two
// selector components, then the last component
func callName(fset *token.FileSet, fun ast.Expr, aliases map[string]string) int {
	text := exprText(fset, fun)
	// resolve one level of local aliases (lock := txn.owner.slock)
	if i := strings.Index(text, "."); i > 0 {
		if full, ok := aliases[text[:i]]; ok {
			parts := strings.Split(full, ".")
			text = parts[len(parts)-1] + text[i:]
		}
	}
	if id := intern(text); id != 0 {
		return id
	}
	parts := strings.Split(text, ".")
	if len(parts) >= 2 {
		if id := intern(strings.Join(parts[len(parts)-2:], ".")); id != 0 {
			return id
		}
	}
	// generic type instantiation etc.
	last := parts[len(parts)-1]
	return intern(last)
}

type walker struct {
	fset    *token.FileSet
	toks    []tok
	aliases map[string]string
}

func (w *walker) emit(depth, kind, name int) { w.toks = append(w.toks, tok{depth, kind, name}) }

func (w *walker) expr(e ast.Expr, depth int) {
	if e == nil {
		return
	}
	switch x := e.(type) {
	case *ast.CallExpr:
		// arguments first (evaluation order), function literals inline
		if sel, ok := x.Fun.(*ast.SelectorExpr); ok {
			w.expr(sel.X, depth)
		}
		for _, a := range x.Args {
			w.expr(a, depth)
		}
		w.emit(depth, kCall, callName(w.fset, x.Fun, w.aliases))
		if id := intern(exprText(w.fset, x)); id != 0 {
			w.emit(depth, kExact, id)
		}
	case *ast.FuncLit:
		w.emit(depth, kClosureOpen, 0)
		w.block(x.Body.List, depth+1)
		w.emit(depth, kClosureClose, 0)
	case *ast.BinaryExpr:
		w.expr(x.X, depth)
		w.expr(x.Y, depth)
	case *ast.UnaryExpr:
		w.expr(x.X, depth)
	case *ast.ParenExpr:
		w.expr(x.X, depth)
	case *ast.SelectorExpr:
		w.expr(x.X, depth)
	case *ast.IndexExpr:
		w.expr(x.X, depth)
		w.expr(x.Index, depth)
	case *ast.StarExpr:
		w.expr(x.X, depth)
	case *ast.CompositeLit:
		for _, el := range x.Elts {
			w.expr(el, depth)
		}
	case *ast.KeyValueExpr:
		w.expr(x.Value, depth)
	case *ast.TypeAssertExpr:
		w.expr(x.X, depth)
	case *ast.SliceExpr:
		w.expr(x.X, depth)
	}
}

func (w *walker) assignTarget(e ast.Expr, depth int) {
	text := exprText(w.fset, e)
	for _, f := range []string{"clone.ID", "commits", "fill", "count", "seek", "record"} {
		if strings.Contains(text, f) {
			w.emit(depth, kAssign, intern(f))
			return
		}
	}
}

func (w *walker) stmt(s ast.Stmt, depth int) {
	switch x := s.(type) {
	case *ast.ExprStmt:
		w.expr(x.X, depth)
	case *ast.AssignStmt:
		for _, r := range x.Rhs {
			w.expr(r, depth)
		}
		if x.Tok == token.DEFINE && len(x.Lhs) == 1 && len(x.Rhs) == 1 {
			if id, ok := x.Lhs[0].(*ast.Ident); ok {
				if _, isSel := x.Rhs[0].(*ast.SelectorExpr); isSel {
					w.aliases[id.Name] = exprText(w.fset, x.Rhs[0])
				}
			}
		}
		for _, l := range x.Lhs {
			w.assignTarget(l, depth)
		}
	case *ast.DeferStmt:
		for _, a := range x.Call.Args {
			w.expr(a, depth)
		}
		if fl, ok := x.Call.Fun.(*ast.FuncLit); ok {
			w.emit(depth, kDefer, 0)
			w.expr(fl, depth)
		} else {
			w.emit(depth, kDefer, callName(w.fset, x.Call.Fun, w.aliases))
		}
	case *ast.GoStmt:
		w.emit(depth, kGo, callName(w.fset, x.Call.Fun, w.aliases))
	case *ast.ReturnStmt:
		for _, r := range x.Results {
			w.expr(r, depth)
		}
		w.emit(depth, kRet, 0)
	case *ast.IfStmt:
		if x.Init != nil {
			w.stmt(x.Init, depth)
		}
		w.expr(x.Cond, depth)
		w.emit(depth, kCond, intern(exprText(w.fset, x.Cond)))
		w.emit(depth, kIfOpen, 0)
		w.block(x.Body.List, depth+1)
		w.emit(depth, kIfClose, 0)
		if x.Else != nil {
			w.emit(depth, kElse, 0)
			w.stmt(x.Else, depth)
		}
	case *ast.ForStmt:
		if x.Init != nil {
			w.stmt(x.Init, depth)
		}
		w.expr(x.Cond, depth)
		w.emit(depth, kLoopOpen, 0)
		w.block(x.Body.List, depth+1)
		if x.Post != nil {
			w.stmt(x.Post, depth+1)
		}
		w.emit(depth, kLoopClose, 0)
	case *ast.RangeStmt:
		w.expr(x.X, depth)
		w.emit(depth, kLoopOpen, 0)
		w.block(x.Body.List, depth+1)
		w.emit(depth, kLoopClose, 0)
	case *ast.BlockStmt:
		w.block(x.List, depth)
	case *ast.SwitchStmt:
		if x.Init != nil {
			w.stmt(x.Init, depth)
		}
		w.expr(x.Tag, depth)
		for _, c := range x.Body.List {
			cc := c.(*ast.CaseClause)
			for _, e := range cc.List {
				w.expr(e, depth)
			}
			w.emit(depth, kIfOpen, 0)
			w.block(cc.Body, depth+1)
			w.emit(depth, kIfClose, 0)
		}
	case *ast.SelectStmt:
		for _, c := range x.Body.List {
			cc := c.(*ast.CommClause)
			w.emit(depth, kIfOpen, 0)
			w.block(cc.Body, depth+1)
			w.emit(depth, kIfClose, 0)
		}
	case *ast.IncDecStmt:
		w.assignTarget(x.X, depth)
	case *ast.SendStmt:
		w.expr(x.Chan, depth)
		w.expr(x.Value, depth)
	case *ast.DeclStmt:
		if gd, ok := x.Decl.(*ast.GenDecl); ok {
			for _, sp := range gd.Specs {
				if vs, ok := sp.(*ast.ValueSpec); ok {
					for _, v := range vs.Values {
						w.expr(v, depth)
					}
				}
			}
		}
	}
}

func (w *walker) block(list []ast.Stmt, depth int) {
	for _, s := range list {
		w.stmt(s, depth)
	}
}

func recvName(fd *ast.FuncDecl) string {
	if fd.Recv == nil || len(fd.Recv.List) == 0 {
		return ""
	}
	t := fd.Recv.List[0].Type
	if st, ok := t.(*ast.StarExpr); ok {
		t = st.X
	}
	if id, ok := t.(*ast.Ident); ok {
		return id.Name
	}
	if ix, ok := t.(*ast.IndexExpr); ok {
		if id, ok := ix.X.(*ast.Ident); ok {
			return id.Name
		}
	}
	return ""
}

func main() {
	root := "/repo"
	if len(os.Args) > 1 {
		root = os.Args[1]
	}
	fset := token.NewFileSet()
	files := map[string]*ast.File{}
	var out bytes.Buffer
	fmt.Fprintf(&out, "/-! GENERATED by /verif/extract from %s on every run — do not edit. -/\n", "the working tree of kelindar/column")
	fmt.Fprintf(&out, "namespace ColumnVerif.Generated\n\n")
	fmt.Fprintf(&out, "/-- (depth, kind, name) — kinds and names are explained in `ColumnVerif/Conc/Skel.lean` -/\nabbrev Tok := Nat × Nat × Nat\n\n")
	fmt.Fprintf(&out, "def dictVersion : Nat := %d\n\n", dictVersion)
	var names []string
	for _, f := range fns {
		af, ok := files[f.file]
		if !ok {
			var err error
			af, err = parser.ParseFile(fset, filepath.Join(root, f.file), nil, parser.SkipObjectResolution)
			if err != nil {
				af = nil
			}
			files[f.file] = af
		}
		ident := strings.ReplaceAll(f.recv+"_"+f.name, ".", "_")
		if f.recv == "" {
			ident = "fn_" + f.name
		}
		names = append(names, ident)
		var toks []tok
		found := false
		if af != nil {
			for _, d := range af.Decls {
				fd, ok := d.(*ast.FuncDecl)
				if !ok || fd.Name.Name != f.name || recvName(fd) != f.recv || fd.Body == nil {
					continue
				}
				w := &walker{fset: fset, aliases: map[string]string{}}
				w.block(fd.Body.List, 0)
				toks = w.toks
				found = true
			}
		}
		fmt.Fprintf(&out, "/-- `%s` in %s%s -/\n", strings.TrimPrefix(f.recv+"."+f.name, "."), f.file, map[bool]string{true: "", false: " (NOT FOUND)"}[found])
		fmt.Fprintf(&out, "def %s : List Tok := [", ident)
		for i, t := range toks {
			if i > 0 {
				out.WriteString(", ")
			}
			if i%8 == 0 {
				out.WriteString("\n  ")
			}
			fmt.Fprintf(&out, "(%d, %d, %d)", t.depth, t.kind, t.name)
		}
		out.WriteString("]\n\n")
	}
	sort.Strings(names)
	fmt.Fprintf(&out, "/-- the dictionary the extractor used (documentation; ids are fixed by `dictVersion`) -/\ndef dictNames : List (Nat × String) := [")
	for i, d := range dict {
		if i > 0 {
			out.WriteString(", ")
		}
		if i%4 == 0 {
			out.WriteString("\n  ")
		}
		fmt.Fprintf(&out, "(%d, %q)", i, d)
	}
	out.WriteString("]\n\nend ColumnVerif.Generated\n")
	os.Stdout.Write(out.Bytes())
}
