package main

import (
	"fmt"
	"os"
	"strings"
)

// runMode dispatches the modes added after `codec`; returns false for an unknown mode.
func runMode(mode string, rep *Report, replay string) bool {
	switch mode {
	case "script":
		// debugging aid: harness script -replay <file> ; prints both sides line by line
		lines, err := readReplay(replay)
		if err != nil {
			fmt.Fprintln(os.Stderr, err)
			os.Exit(2)
		}
		lm := os.Getenv("SCRIPT_MODE")
		if lm == "" {
			lm = "store"
		}
		mk := newStoreImpl
		if lm == "codec" {
			mk = newCodecImpl
		}
		c := Case{Name: "script", Lines: lines}
		g := runGo(mk, c)
		l, err := runLean(lm, []Case{c})
		if err != nil {
			fmt.Fprintln(os.Stderr, err)
			os.Exit(2)
		}
		for i := range lines {
			mark := "  "
			if g[i] != l[0][i] {
				mark = "!!"
			}
			fmt.Fprintf(os.Stderr, "%s %s\n     impl : %s\n     model: %s\n", mark, lines[i], clip(g[i], 600), clip(l[0][i], 600))
		}
		return true
	case "store":
		runStore(rep, replay)
		return true
	case "stress":
		runStress(rep, replay)
		return true
	case "ttl":
		runTTL(rep, replay)
		return true
	case "widen":
		runWiden(rep, replay)
		return true
	case "snapfail":
		runSnapfail(rep, replay)
		return true
	case "trunc":
		runTrunc(rep, replay)
		return true
	case "sched":
		runSched(rep, replay)
		return true
	case "known":
		if replay == "" {
			runKnown(rep)
		}
		rep.Rule = "replay of the witness script of every finding listed for the property in KNOWN_FINDINGS.json"
		return true
	}
	if strings.HasPrefix(mode, "_") {
		return false
	}
	return false
}
