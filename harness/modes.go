package main

// runMode dispatches the modes added after `codec`; returns false for an unknown mode.
func runMode(mode string, rep *Report, replay string) bool {
	return false
}
