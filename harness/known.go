package main

import (
	"encoding/json"
	"fmt"
	"os"
	"path/filepath"
	"strings"
)

type knownEntry struct {
	ID         string   `json:"id"`
	Properties []string `json:"properties"`
	Mode       string   `json:"mode"`
	Witness    string   `json:"witness"`
	What       string   `json:"what"`
}

type knownFile struct {
	Known []knownEntry `json:"known"`
	Fixed []string     `json:"fixed"`
}

func loadKnown() knownFile {
	var k knownFile
	data, err := os.ReadFile(filepath.Join(verifDir(), "KNOWN_FINDINGS.json"))
	if err == nil {
		json.Unmarshal(data, &k)
	}
	return k
}

// witness file: protocol lines; a following "#= text" line records the implementation's output
// that exhibits the defect.
func readWitness(path string) (lines []string, expect map[int]string, err error) {
	data, err := os.ReadFile(path)
	if err != nil {
		return nil, nil, err
	}
	expect = map[int]string{}
	for _, l := range strings.Split(string(data), "\n") {
		t := strings.TrimSpace(l)
		switch {
		case strings.HasPrefix(t, "#="):
			if len(lines) > 0 {
				expect[len(lines)-1] = strings.TrimSpace(strings.TrimPrefix(t, "#="))
			}
		case t == "" || strings.HasPrefix(t, "#"):
		default:
			lines = append(lines, t)
		}
	}
	return
}

// runKnown replays the witness of every finding listed for the property: it must still fail on the
// implementation exactly as recorded, and the model must predict the implementation's outputs.
func runKnown(rep *Report) {
	k := loadKnown()
	for _, e := range k.Known {
		listed := false
		for _, p := range e.Properties {
			if p == rep.Property {
				listed = true
			}
		}
		if !listed || e.Mode != "store" {
			continue
		}
		lines, expect, err := readWitness(filepath.Join(verifDir(), e.Witness))
		if err != nil {
			rep.Notes = append(rep.Notes, "known finding "+e.ID+": witness unreadable: "+err.Error())
			continue
		}
		c := Case{Name: "known/" + e.ID, Lines: lines}
		g := runGo(newStoreImpl, c)
		l, lerr := runLean("store", []Case{c})
		rep.Cases++
		rep.Lines += len(lines)
		stillFails := true
		for i, want := range expect {
			if g[i] != want {
				stillFails = false
			}
		}
		if lerr != nil {
			rep.Violations = append(rep.Violations, Violation{Property: rep.Property, Kind: "correspondence", Clause: "lean driver failed on known-finding witness " + e.ID + ": " + lerr.Error()})
			continue
		}
		if d := firstDiff(g, l[0]); d >= 0 {
			v := Violation{Property: rep.Property, Kind: "correspondence", Clause: fmt.Sprintf("known-finding witness %s: model and implementation differ at line %d (%s)", e.ID, d, clip(lines[d], 80)), Script: lines, GoOut: g, LeanOut: l[0]}
			writeReplay(rep.Property, "known", &v)
			rep.Violations = append(rep.Violations, v)
			continue
		}
		if stillFails {
			rep.KnownFindings = append(rep.KnownFindings, fmt.Sprintf("KNOWN-FINDING: property=%s %s %s (witness %s)", rep.Property, e.ID, e.What, e.Witness))
		} else {
			rep.Notes = append(rep.Notes, fmt.Sprintf("KNOWN-FINDING-RESOLVED: %s no longer fails as recorded (witness %s)", e.ID, e.Witness))
		}
	}
}
