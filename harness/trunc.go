package main

import (
	"bytes"
	"encoding/binary"
	"fmt"
	"io"
	"math/rand"
	"strings"
	"time"

	"github.com/kelindar/column"
	"github.com/kelindar/column/commit"
	"github.com/klauspost/compress/s2"
)

// ---------------------------------------------------------------------------------------------
// trunc mode (C13): every prefix of a snapshot / commit-log byte stream either fails to restore or
// yields the original at a commit boundary; never a panic, a hang or a partial commit.
//
//  * implementation-only oracle: Restore(prefix) → error, or a dump equal to the dump of the
//    original at one of the commit boundaries (block states + the first k logged commits);
//  * correspondence: for the log part the model (Wire.rangeLog over the decompressed bytes, with
//    the s2 frame structure parsed here) predicts how many commits Log.Range delivers for every
//    cut and whether it reports an error.
// ---------------------------------------------------------------------------------------------

type cutStream struct {
	name                  string
	data                  []byte   // the full stream
	tailAt                int      // offset where the recorded log starts (== len(data) when there is none)
	expected              []string // dumps at the commit boundaries: expected[k] = state + first k logged commits
	schema                func() *column.Collection
	sparseCuts            bool     // few random cuts (huge stream)
	truthFirst, truthLast string   // the primary when the state section was complete / after the last logged commit
	whole                 [][]byte // huge stream: the serialized commits of the uncut log
}

type countingWriter struct {
	buf    bytes.Buffer
	markAt int
}

func (w *countingWriter) Write(p []byte) (int, error) { return w.buf.Write(p) }

func truncSchema(kind int) func() *column.Collection {
	return func() *column.Collection {
		c := column.NewCollection(column.Options{Capacity: 64, Vacuum: 24 * time.Hour})
		c.CreateColumn("n", column.ForInt32())
		c.CreateColumn("s", column.ForString(column.WithMerge(func(v, d string) string { return v + d })))
		c.CreateColumn("b", column.ForBool())
		if kind%2 == 1 {
			c.CreateColumn("e", column.ForEnum())
			c.CreateIndex("big", "n", func(r column.Reader) bool { return r.Int() > 50 })
		}
		return c
	}
}

func truncDump(c *column.Collection) string {
	var rows []string
	c.Query(func(txn *column.Txn) error {
		return txn.Range(func(idx uint32) {
			var parts []string
			txn.QueryAt(idx, func(r column.Row) error {
				if v, ok := r.Int32("n"); ok {
					parts = append(parts, fmt.Sprintf("n=%d", v))
				}
				if v, ok := r.String("s"); ok {
					parts = append(parts, fmt.Sprintf("s=%q", v))
				}
				if r.Bool("b") {
					parts = append(parts, "b")
				}
				return nil
			})
			rows = append(rows, fmt.Sprintf("%d{%s}", idx, strings.Join(parts, ",")))
		})
	})
	return fmt.Sprintf("count=%d %s", c.Count(), strings.Join(rows, " "))
}

// buildSnapshotStream: a populated collection, a snapshot, and `tail` commits that land while the
// recorder is open (issued from the "s:written" yield point, where the snapshot holds no lock)
func buildSnapshotStream(r *rand.Rand, name string, kind, rowsN, tail int, bigCommit bool) cutStream {
	return buildSnapshotStreamOpt(r, name, kind, rowsN, tail, bigCommit, false, 0)
}

// stateChunkIDs parses the (decompressed) state section of a snapshot and returns the last commit id
// stored with every chunk — independently of readState
func stateChunkIDs(state []byte) (ids []uint64, ok bool) {
	plain, err := io.ReadAll(s2.NewReader(bytes.NewReader(state)))
	if err != nil {
		return nil, false
	}
	defer func() {
		if recover() != nil {
			ids, ok = nil, false
		}
	}()
	pos := 0
	uv := func() uint64 {
		v, n := binary.Uvarint(plain[pos:])
		if n <= 0 {
			panic("uvarint")
		}
		pos += n
		return v
	}
	_, columns, chunks := uv(), uv(), uv()
	for ch := uint64(0); ch < chunks; ch++ {
		ids = append(ids, uv())
		for b := uint64(0); b < columns; b++ {
			pos += int(uv()) // column name
			pos += 4
			pos += int(uv()) * 12
			pos += int(uv())
		}
	}
	return ids, pos == len(plain)
}

// early: number of commits made right after the recorder was installed, before any chunk is written:
// they are in the chunk states AND in the recorded log, and Restore must skip them by commit id
func buildSnapshotStreamOpt(r *rand.Rand, name string, kind, rowsN, tail int, bigCommit, huge bool, early int) cutStream {
	schema := truncSchema(kind)
	lg := &streamLogger{kind: "log"}
	c := schema()
	defer c.Close()
	offs := []uint32{}
	for i := 0; i < rowsN; i++ {
		o := uint32(i)
		if i%5 == 4 {
			o = 16384 + uint32(i) // second chunk
		}
		offs = append(offs, o)
	}
	insertMarkers(c, offs...)
	c.Query(func(txn *column.Txn) error {
		for i, o := range offs {
			txn.QueryAt(o, func(row column.Row) error {
				row.SetInt32("n", int32(i*7))
				row.SetString("s", fmt.Sprintf("v%d", i))
				row.SetBool("b", i%2 == 0)
				if kind%2 == 1 {
					row.SetEnum("e", []string{"x", "y"}[i%2])
				}
				return nil
			})
		}
		return nil
	})
	// commits recorded during the snapshot
	var w countingWriter
	var logged []streamCommit
	truthAtState := ""
	column.VerifSetYield(func(p string) {
		switch p {
		case "s:opened":
			for k := 0; k < early; k++ {
				o := offs[0] // the same row of chunk 1 and the same row of chunk 0 in turn
				if k%2 == 0 && len(offs) > 4 {
					o = offs[4]
				}
				c.Query(func(txn *column.Txn) error {
					return txn.QueryAt(o, func(row column.Row) error {
						row.SetInt32("n", int32(7000+k))
						row.MergeString("s", "!")
						return nil
					})
				})
			}
		case "s:written":
			// ground truth, independent of Restore: the collection as it is now is what the state section holds
			// (every commit so far was made before the first chunk was read)
			truthAtState = truncDump(c)
			// capture the commits through a logger installed for the window only
			for k := 0; k < tail; k++ {
				o := offs[r.Intn(len(offs))]
				c.Query(func(txn *column.Txn) error {
					return txn.QueryAt(o, func(row column.Row) error {
						row.SetInt32("n", int32(1000+k))
						row.MergeString("s", "+")
						return nil
					})
				})
				if bigCommit && k == 0 {
					// a commit of its own (a put after the resizing merge of the same row in ONE transaction is finding D12)
					c.Query(func(txn *column.Txn) error {
						return txn.QueryAt(o, func(row column.Row) error { row.SetString("s", strings.Repeat("z", 60000)); return nil })
					})
				}
				if huge && k == 0 && len(offs) > 4 {
					// one transaction alternating between a row of chunk 0 and a row of chunk 1, > 1 MB per
					// chunk: each of its two commits spans more than one s2 block of the recorded log
					c.Query(func(txn *column.Txn) error {
						// 300k alternations: every column buffer of the commit has ~150k sections, so its
						// section table alone (8 bytes per section) is longer than one 1 MB block — a block
						// boundary of the recorded log falls inside a table (whose read errors the decoder
						// ignores) as well as inside the data
						for j := 0; j < 300000; j++ {
							o := offs[0]
							if j%2 == 1 {
								o = offs[4]
							}
							txn.QueryAt(o, func(row column.Row) error {
								row.SetInt32("n", int32(5000+j))
								if j%1000 == 0 {
									row.SetString("s", strings.Repeat(string(rune('a'+j%26)), 3000))
								}
								return nil
							})
						}
						return nil
					})
				}
				if k%2 == 1 && len(offs) > 1 {
					o2 := offs[(k*3)%len(offs)]
					c.Query(func(txn *column.Txn) error {
						txn.QueryAt(o, func(row column.Row) error { row.SetInt32("n", int32(2000+k)); return nil })
						return txn.QueryAt(o2, func(row column.Row) error { row.SetInt32("n", int32(3000+k)); return nil })
					})
				}
			}
		case "s:closed":
			w.markAt = w.buf.Len()
		}
	})
	_ = lg
	err := c.Snapshot(&w)
	column.VerifSetYield(nil)
	if err != nil {
		panic("trunc: snapshot failed: " + err.Error())
	}
	data := w.buf.Bytes()
	cs := cutStream{name: name, data: data, tailAt: w.markAt, schema: schema, sparseCuts: huge}
	// commit boundaries: restore(state only), then replay the logged commits one by one
	var commits []commit.Commit
	lr := commit.Open(bytes.NewReader(data[w.markAt:]))
	lr.Range(func(cm commit.Commit) error { commits = append(commits, cm); return nil })
	_ = logged
	ids, idsOK := stateChunkIDs(data[:w.markAt])
	if !idsOK {
		panic("trunc: cannot parse the state section")
	}
	for k := 0; k <= len(commits); k++ {
		q := schema()
		if err := q.Restore(bytes.NewReader(data[:w.markAt])); err != nil {
			panic("trunc: restore of the state section failed: " + err.Error())
		}
		var cs2 []commit.Commit
		lr := commit.Open(bytes.NewReader(data[w.markAt:]))
		lr.Range(func(cm commit.Commit) error { cs2 = append(cs2, cm); return nil })
		for _, cm := range cs2[:k] {
			// reference replay: a logged commit is applied iff it is newer than the id stored with its chunk
			if int(cm.Chunk) < len(ids) && cm.ID <= ids[cm.Chunk] {
				continue
			}
			q.Replay(cm)
		}
		cs.expected = append(cs.expected, truncDump(q))
		q.Close()
	}
	// the two ends of the boundary list against the primary itself
	cs.truthFirst, cs.truthLast = truthAtState, truncDump(c)
	return cs
}

// s2 frame structure of a stream: for each chunk (offset of its end, decompressed payload length)
type s2frame struct {
	end     int
	payload int
}

func parseS2(data []byte) ([]s2frame, []byte, bool) {
	var frames []s2frame
	var plain []byte
	p := 0
	for p < len(data) {
		if p+4 > len(data) {
			return frames, plain, false
		}
		typ := data[p]
		n := int(data[p+1]) | int(data[p+2])<<8 | int(data[p+3])<<16
		if p+4+n > len(data) {
			return frames, plain, false
		}
		body := data[p+4 : p+4+n]
		switch {
		case typ == 0x00 && n >= 4: // compressed
			d, err := s2.Decode(nil, body[4:])
			if err != nil {
				return frames, plain, false
			}
			plain = append(plain, d...)
			frames = append(frames, s2frame{p + 4 + n, len(d)})
		case typ == 0x01 && n >= 4: // uncompressed
			plain = append(plain, body[4:]...)
			frames = append(frames, s2frame{p + 4 + n, n - 4})
		default: // stream identifier, padding, skippable
			frames = append(frames, s2frame{p + 4 + n, 0})
		}
		p += 4 + n
	}
	return frames, plain, true
}

func restoreCut(cs cutStream, n int) (res string, dump string) {
	done := make(chan struct{})
	go func() {
		defer func() {
			if r := recover(); r != nil {
				res = "panic: " + fmt.Sprint(r)
			}
			close(done)
		}()
		q := cs.schema()
		defer q.Close()
		if err := q.Restore(bytes.NewReader(cs.data[:n])); err != nil {
			res = "err"
			return
		}
		res = "ok"
		dump = truncDump(q)
	}()
	select {
	case <-done:
	case <-time.After(5 * time.Second):
		return "hang", ""
	}
	return
}

func rangeCut(tail []byte) (n int, failed bool, panicked string) {
	defer func() {
		if r := recover(); r != nil {
			panicked = fmt.Sprint(r)
		}
	}()
	err := commit.Open(bytes.NewReader(tail)).Range(func(cm commit.Commit) error {
		n++
		return nil
	})
	return n, err != nil, ""
}

// rangeWhole: Log.Range over a cut log; every delivered commit, serialized inside the callback, must be
// byte-identical to the commit at the same position of the uncut log (a commit delivered in part is not)
func rangeWhole(tail []byte, whole [][]byte) (n int, partial int, panicked string) {
	defer func() {
		if r := recover(); r != nil {
			panicked = fmt.Sprint(r)
		}
	}()
	partial = -1
	commit.Open(bytes.NewReader(tail)).Range(func(cm commit.Commit) error {
		var b bytes.Buffer
		cm.WriteTo(&b)
		if n >= len(whole) || !bytes.Equal(b.Bytes(), whole[n]) {
			if partial < 0 {
				partial = n
			}
		}
		n++
		return nil
	})
	return
}

func runTrunc(rep *Report, replay string) {
	r := rand.New(rand.NewSource(rep.Seed))
	var streams []cutStream
	streams = append(streams,
		buildSnapshotStream(r, "empty", 0, 0, 0, false),
		buildSnapshotStream(r, "small-notail", 0, 6, 0, false),
		buildSnapshotStream(r, "small-tail3", 1, 8, 3, false),
		buildSnapshotStream(r, "two-chunks-tail5", 0, 25, 5, false),
		buildSnapshotStream(r, "enum-index-tail2", 1, 12, 2, false),
		buildSnapshotStreamOpt(r, "multi-block-commit-tail2", 0, 10, 2, false, true, 0),
		buildSnapshotStreamOpt(r, "early4-tail3", 0, 10, 3, false, false, 4),
		buildSnapshotStreamOpt(r, "early6-tail0", 1, 15, 0, false, false, 6),
	)
	if rep.Tier == "thorough" {
		streams = append(streams,
			buildSnapshotStream(r, "big-commit-tail3", 0, 10, 3, true),
			buildSnapshotStream(r, "rows200-tail8", 1, 200, 8, false),
			buildSnapshotStream(r, "rows60-tail12", 0, 60, 12, false))
	}
	var leanCases []Case
	var leanWant [][]string
	for _, cs := range streams {
		frames, _, ok := parseS2(cs.data[cs.tailAt:])
		_, plainTail, _ := parseS2(cs.data[cs.tailAt:])
		if !ok {
			rep.Notes = append(rep.Notes, cs.name+": cannot parse the s2 framing of the recorded log")
		}
		// the boundary states themselves: restoring the complete state section / the complete file must give the
		// primary as it was (ground truth taken from the primary, not through Restore)
		if len(cs.expected) > 0 {
			for _, e := range []struct{ got, want, what string }{
				{cs.expected[0], cs.truthFirst, "the complete state section (no logged commit)"},
				{cs.expected[len(cs.expected)-1], cs.truthLast, "the complete file"},
			} {
				if e.want != "" && e.got != e.want {
					v := Violation{Property: rep.Property, Kind: "oracle", Clause: fmt.Sprintf("[%s] restoring %s does not reproduce the collection: restored %s, original %s", cs.name, e.what, clip(e.got, 200), clip(e.want, 200)),
						Script: []string{"stream " + cs.name, "cut " + e.what}}
					if len(rep.Violations) < 5 {
						writeReplay(rep.Property, "trunc", &v)
						rep.Violations = append(rep.Violations, v)
					}
				}
			}
		}
		// cuts: every byte in the thorough tier; frame boundaries ± 2 and a random sample otherwise
		cuts := map[int]bool{}
		if (rep.Tier == "thorough" && !cs.sparseCuts) || len(cs.data) < 1500 {
			for n := 0; n <= len(cs.data); n++ {
				cuts[n] = true
			}
		} else {
			for _, f := range frames {
				for d := -2; d <= 2; d++ {
					if n := cs.tailAt + f.end + d; n >= 0 && n <= len(cs.data) {
						cuts[n] = true
					}
				}
			}
			for d := -3; d <= 3; d++ {
				if n := cs.tailAt + d; n >= 0 && n <= len(cs.data) {
					cuts[n] = true
				}
			}
			nRand := 400
			if cs.sparseCuts {
				nRand = 250 // megabytes per restore: never every byte
				if rep.Tier == "thorough" {
					nRand = 3000
				}
			}
			for i := 0; i < nRand; i++ {
				cuts[r.Intn(len(cs.data)+1)] = true
			}
			cuts[len(cs.data)] = true
		}
		lines := []string{"new t", "logplain " + hexOf(plainTail)}
		var want []string
		want = append(want, "ok")
		boundaryHits := 0
		for n := range cuts {
			rep.Cases++
			res, dump := restoreCut(cs, n)
			rep.count("restore:" + res)
			switch res {
			case "ok":
				found := -1
				for k, e := range cs.expected {
					if e == dump {
						found = k
					}
				}
				if found < 0 {
					v := Violation{Property: rep.Property, Kind: "oracle", Clause: fmt.Sprintf("[%s] the prefix of %d of %d bytes restores without error to a state that equals the original at no commit boundary: %s", cs.name, n, len(cs.data), clip(dump, 300)),
						Script: []string{"stream " + cs.name, fmt.Sprintf("cut %d", n)}}
					if len(rep.Violations) < 5 {
						writeReplay(rep.Property, "trunc", &v)
						rep.Violations = append(rep.Violations, v)
					}
				} else {
					boundaryHits++
					rep.DistinctNontrivial++
				}
			case "err":
				rep.DistinctNontrivial++
			default:
				v := Violation{Property: rep.Property, Kind: "oracle", Clause: fmt.Sprintf("[%s] restoring the prefix of %d of %d bytes: %s", cs.name, n, len(cs.data), res),
					Script: []string{"stream " + cs.name, fmt.Sprintf("cut %d", n)}}
				if len(rep.Violations) < 5 {
					writeReplay(rep.Property, "trunc", &v)
					rep.Violations = append(rep.Violations, v)
				}
			}
			// huge stream: implementation-only oracle for the log part (whole commits only)
			if n >= cs.tailAt && cs.sparseCuts {
				if cs.whole == nil {
					commit.Open(bytes.NewReader(cs.data[cs.tailAt:])).Range(func(cm commit.Commit) error {
						var b bytes.Buffer
						cm.WriteTo(&b)
						cs.whole = append(cs.whole, b.Bytes())
						return nil
					})
				}
				got, partial, pan := rangeWhole(cs.data[cs.tailAt:n], cs.whole)
				if pan != "" || partial >= 0 {
					v := Violation{Property: rep.Property, Kind: "oracle", Clause: fmt.Sprintf("[%s] Log.Range over the first %d of %d log bytes delivered %d commits; commit #%d differs from the commit written (delivered in part) %s", cs.name, n-cs.tailAt, len(cs.data)-cs.tailAt, got, partial, pan),
						Script: []string{"stream " + cs.name, fmt.Sprintf("cut %d", n)}}
					if len(rep.Violations) < 5 {
						writeReplay(rep.Property, "trunc", &v)
						rep.Violations = append(rep.Violations, v)
					}
				}
				continue
			}
			// correspondence for the log part
			if n >= cs.tailAt && ok {
				t := n - cs.tailAt
				got, failed, pan := rangeCut(cs.data[cs.tailAt:n])
				if pan != "" {
					v := Violation{Property: rep.Property, Kind: "oracle", Clause: fmt.Sprintf("[%s] Log.Range over the first %d bytes of the log panicked: %s", cs.name, t, pan)}
					if len(rep.Violations) < 5 {
						rep.Violations = append(rep.Violations, v)
					}
					continue
				}
				// plain bytes available to the decoder and whether the cut is inside a frame
				m, corrupt := 0, false
				prevEnd := 0
				for _, f := range frames {
					if f.end <= t {
						m += f.payload
						prevEnd = f.end
					}
				}
				if t != prevEnd {
					corrupt = true
				}
				if t == 0 {
					corrupt = false
				}
				lines = append(lines, fmt.Sprintf("logcut %d %v", m, corrupt))
				want = append(want, fmt.Sprintf("n=%d err=%v", got, failed))
			}
		}
		rep.count(fmt.Sprintf("stream:%s bytes=%d tail=%d boundaries-restored=%d", cs.name, len(cs.data), len(cs.data)-cs.tailAt, boundaryHits))
		if len(lines) > 2 {
			leanCases = append(leanCases, Case{Name: cs.name, Lines: lines})
			leanWant = append(leanWant, append([]string{"ok"}, want...))
		}
		if len(rep.Samples) < 3 {
			rep.Samples = append(rep.Samples, map[string]interface{}{"stream": cs.name, "bytes": len(cs.data), "log_starts_at": cs.tailAt, "commit_boundaries": len(cs.expected), "cuts_tried": len(cuts)})
		}
	}
	if len(leanCases) > 0 {
		outs, err := runLean("codec", leanCases)
		if err != nil {
			rep.Violations = append(rep.Violations, Violation{Property: rep.Property, Kind: "correspondence", Clause: "lean driver failed: " + err.Error()})
		} else {
			for i := range leanCases {
				if d := firstDiff(leanWant[i], outs[i]); d >= 0 {
					v := Violation{Property: rep.Property, Kind: "correspondence", Clause: fmt.Sprintf("[%s] Log.Range over a cut log: implementation %s, model %s (%s)", leanCases[i].Name, leanWant[i][d], outs[i][d], clip(leanCases[i].Lines[d], 60)),
						Script: []string{leanCases[i].Lines[0], leanCases[i].Lines[d]}, GoOut: []string{"ok", leanWant[i][d]}, LeanOut: []string{"ok", outs[i][d]}}
					if len(rep.Violations) < 5 {
						writeReplay(rep.Property, "trunc", &v)
						rep.Violations = append(rep.Violations, v)
					}
				}
				rep.Lines += len(leanCases[i].Lines)
			}
		}
	}
	rep.Rule = "snapshot streams (empty / one chunk / two chunks / with enum+index; with 0..12 commits recorded while the snapshot was open, single- and multi-chunk, one > 60 KB) cut at every byte (small streams and thorough tier) or at every s2 frame boundary ± 2, the state/log boundary ± 3 and 400 random offsets; per cut: Restore must fail or equal the original at a commit boundary (implementation-only), and for cuts in the log part Log.Range's delivered-commit count and error flag are compared with the Lean model over the decompressed bytes; non-trivial = cuts that produced a decided outcome (error or boundary state)"
	_ = binary.BigEndian
	_ = io.EOF
}
