package main

import (
	"bytes"
	"math/rand"
	"runtime"
	"sync"
	"sync/atomic"

	"errors"
	"fmt"
	"github.com/kelindar/column/commit"
	"os"
	"time"

	"github.com/kelindar/column"
)

// ---------------------------------------------------------------------------------------------
// snapfail mode (C14): the destination writer fails at write call k / after n bytes, once or
// forever; Snapshot must report it, leave no recorder / descriptor / temp file behind, and the
// collection must keep working (commit, healthy snapshot, restore).
// ---------------------------------------------------------------------------------------------

var errInjected = errors.New("injected write failure")

type failWriter struct {
	buf                         bytes.Buffer
	calls                       int
	failAtCall                  int // fail the k-th Write call (1-based; 0 = never)
	budget                      int // accept at most this many bytes in total (-1 = unlimited)
	forever                     bool
	failures                    int
	phaseCopy                   bool // set by the yield hook once the recorder is closed (the log copy follows)
	failedInState, failedInCopy bool
}

func (w *failWriter) Write(p []byte) (int, error) {
	w.calls++
	fail := false
	n := len(p)
	if w.failAtCall > 0 && (w.calls == w.failAtCall || (w.forever && w.calls > w.failAtCall)) {
		fail, n = true, 0
	}
	if w.budget >= 0 && w.buf.Len()+len(p) > w.budget && (w.failures == 0 || w.forever) {
		fail = true
		n = w.budget - w.buf.Len()
		if n < 0 {
			n = 0
		}
	}
	w.buf.Write(p[:n])
	if fail {
		w.failures++
		if w.phaseCopy {
			w.failedInCopy = true
		} else {
			w.failedInState = true
		}
		return n, errInjected
	}
	return n, nil
}

func countFds() int {
	ents, err := os.ReadDir("/proc/self/fd")
	if err != nil {
		return -1
	}
	return len(ents)
}

func countTemps() int {
	ents, _ := os.ReadDir(harnessTmp)
	return len(ents)
}

func snapfailColl(shape int) *column.Collection {
	c := column.NewCollection(column.Options{Capacity: 64, Vacuum: 24 * time.Hour})
	c.CreateColumn("n", column.ForInt32())
	c.CreateColumn("s", column.ForString())
	// a flag column, computed columns of every sort, and a data column registered after them (the stream's column
	// count and the per-chunk buffers must agree on which columns carry state)
	c.CreateColumn("f", column.ForBool())
	c.CreateIndex("big", "n", func(r column.Reader) bool { return r.Int() > 5 })
	c.CreateSortIndex("by_s", "s")
	c.CreateTrigger("tr", "n", func(column.Reader) {})
	c.CreateColumn("late", column.ForInt64())
	var offs []uint32
	switch shape {
	case 1:
		for i := 0; i < 20; i++ {
			offs = append(offs, uint32(i))
		}
	case 2:
		for i := 0; i < 12; i++ {
			offs = append(offs, uint32(i), 16384+uint32(i), 32768+uint32(i))
		}
	case 3:
		// one chunk whose state exceeds the 1 MB block of the s2 writer: the compressor hands
		// blocks to the destination in the middle of a chunk, not only at the final flush
		c.Query(func(txn *column.Txn) error {
			x := uint64(88172645463325252)
			for i := 0; i < 16384; i++ {
				txn.Insert(func(r column.Row) error {
					var b [96]byte
					for j := range b {
						x ^= x << 13
						x ^= x >> 7
						x ^= x << 17
						b[j] = 'a' + byte(x%26)
					}
					r.SetInt32("n", int32(i))
					r.SetString("s", string(b[:]))
					r.SetBool("f", i%3 == 0)
					r.SetInt64("late", int64(i)*3)
					return nil
				})
			}
			return nil
		})
	}
	if len(offs) > 0 {
		insertMarkers(c, offs...)
		c.Query(func(txn *column.Txn) error {
			for i, o := range offs {
				txn.QueryAt(o, func(r column.Row) error {
					r.SetInt32("n", int32(i))
					r.SetString("s", fmt.Sprintf("row-%d", i))
					r.SetBool("f", i%3 != 1)
					r.SetInt64("late", int64(i)*3)
					return nil
				})
			}
			return nil
		})
	}
	return c
}

func snapDump(c *column.Collection) string {
	out := ""
	c.Query(func(txn *column.Txn) error {
		return txn.Range(func(idx uint32) {
			txn.QueryAt(idx, func(r column.Row) error {
				n, _ := r.Int32("n")
				s, _ := r.String("s")
				l, hasL := r.Int64("late")
				out += fmt.Sprintf("%d:%d:%s:%v:%d/%v:%v ", idx, n, s, r.Bool("f"), l, hasL, r.Bool("big"))
				return nil
			})
		})
	})
	return fmt.Sprintf("count=%d %s", c.Count(), out)
}

func runSnapfail(rep *Report, replay string) {
	var lines []string
	var want []string
	lines = append(lines, "new t")
	want = append(want, "ok")
	addV := func(clause string, script []string) {
		if len(rep.Violations) < 5 {
			v := Violation{Property: rep.Property, Kind: "oracle", Clause: clause, Script: script}
			writeReplay(rep.Property, "snapfail", &v)
			rep.Violations = append(rep.Violations, v)
		}
	}
	shapes := []string{"empty", "one-chunk", "three-chunks", "big-chunk", "one-chunk+commit", "three-chunks+commit"}
	for si := 0; si < len(shapes); si++ {
		shape := si
		withCommit := si >= 4 // a transaction commits while the snapshot is being written: the recorded log is not empty
		if withCommit {
			shape = si - 3
		}
		c := snapfailColl(shape)
		hook := func(w *failWriter) func(string) {
			return func(p string) {
				if p == "s:opened" && withCommit {
					c.QueryAt(0, func(r column.Row) error { r.SetInt32("n", 4242); return nil })
				}
				if p == "s:closed" && w != nil {
					w.phaseCopy = true
				}
			}
		}
		stuck := false
		// size of a healthy snapshot and number of write calls
		var probe failWriter
		probe.budget = -1
		column.VerifSetYield(hook(nil))
		perr := c.Snapshot(&probe)
		column.VerifSetYield(nil)
		if perr != nil {
			addV(fmt.Sprintf("[%s] Snapshot to a healthy writer failed: %v", shapes[si], perr), nil)
			c.Close()
			continue
		}
		size, calls := probe.buf.Len(), probe.calls
		type fault struct {
			call, budget int
			forever      bool
		}
		var faults []fault
		for k := 1; k <= calls+1; k++ {
			faults = append(faults, fault{k, -1, false}, fault{k, -1, true})
		}
		step := 1
		if rep.Tier != "thorough" && size > 300 {
			step = size / 150
		}
		if shape == 3 {
			step = size / 40
			if rep.Tier == "thorough" {
				step = size / 400
			}
		}
		for n := 0; n <= size+1; n += step {
			faults = append(faults, fault{0, n, false}, fault{0, n, true})
		}
		reps := 1
		if rep.Tier == "thorough" {
			reps = 3
		}
		fd0 := countFds()
		runtime.GC()
		gor0 := runtime.NumGoroutine()
		for round := 0; round < reps && !stuck; round++ {
			for _, f := range faults {
				rep.Cases++
				script := []string{"shape " + shapes[si], fmt.Sprintf("fail call=%d budget=%d forever=%v", f.call, f.budget, f.forever)}
				w := &failWriter{failAtCall: f.call, budget: f.budget, forever: f.forever}
				column.VerifSetYield(hook(w))
				fdB, tmpB := countFds(), countTemps()
				gorB := settledGoroutines(-1)
				var err error
				sdone := make(chan struct{})
				go func() { err = c.Snapshot(w); close(sdone) }()
				select {
				case <-sdone:
				case <-time.After(20 * time.Second):
					column.VerifSetYield(nil)
					addV(fmt.Sprintf("[%s] Snapshot to a writer failing at call %d / after %d bytes did not return within 20 s (it blocks on a lock it holds itself)", shapes[si], w.calls, w.buf.Len()), script)
					stuck = true
				}
				if stuck {
					break
				}
				column.VerifSetYield(nil)
				fdA, tmpA := countFds(), countTemps()
				gorA := settledGoroutines(gorB)
				failed := w.failures > 0
				rep.count(fmt.Sprintf("%s:writer-failed=%v", shapes[si], failed))
				switch {
				case failed && err == nil:
					addV(fmt.Sprintf("[%s] the destination writer failed (call %d, %d bytes accepted) but Snapshot returned nil", shapes[si], w.calls, w.buf.Len()), script)
				case !failed && err != nil:
					addV(fmt.Sprintf("[%s] the destination writer never failed but Snapshot returned %v", shapes[si], err), script)
				}
				if c.VerifRecording() {
					addV(fmt.Sprintf("[%s] after Snapshot returned (err=%v) the recorder is still installed: later snapshots are refused and commits keep appending to it", shapes[si], err), script)
				}
				if tmpA != tmpB {
					addV(fmt.Sprintf("[%s] Snapshot (err=%v) left %d temporary file(s) behind", shapes[si], err, tmpA-tmpB), script)
				}
				if fdA != fdB {
					addV(fmt.Sprintf("[%s] Snapshot (err=%v) left %d open file descriptor(s) behind", shapes[si], err, fdA-fdB), script)
				}
				// the model's prediction for this fault class
				lines = append(lines, fmt.Sprintf("snapres 0 0 %d %d", b2i(w.failedInState), b2i(w.failedInCopy)))
				want = append(want, fmt.Sprintf("rec=%v dfd=%d dtemp=%d dgo=%d err=%v", c.VerifRecording(), fdA-fdB, tmpA-tmpB, goroutineDelta(gorB, gorA), err != nil))
				if failed {
					rep.DistinctNontrivial++
				}
				// the collection keeps working: a transaction commits, a healthy snapshot restores
				if rep.Cases%7 == 0 || rep.Tier == "thorough" || shape == 3 {
					// every chunk still accepts a write (a latch leaked by the failed snapshot would block it)
					done := make(chan struct{})
					go func() {
						for ch := uint32(0); ch < 3; ch++ {
							c.QueryAt(ch*16384, func(r column.Row) error { r.SetInt32("n", 4243); return nil })
						}
						close(done)
					}()
					select {
					case <-done:
					case <-time.After(10 * time.Second):
						addV(fmt.Sprintf("[%s] after Snapshot returned (err=%v) a transaction did not commit within 10 s: a lock is still held", shapes[si], err), script)
						stuck = true
					}
					if stuck {
						break
					}
					// "transactions commit normally": one transaction writing both columns of a row reads back both
					// (buffers handed out twice by a pool the failed snapshot corrupted would lose one of them)
					if shape >= 1 {
						probeAt := uint32(0)
						if shape == 3 {
							probeAt = 9000
						}
						wantN, wantS := int32(1000+rep.Cases%1000), fmt.Sprintf("after-%d", rep.Cases)
						c.QueryAt(probeAt, func(r column.Row) error { r.SetInt32("n", wantN); r.SetString("s", wantS); return nil })
						var gotN int32
						var gotS string
						c.QueryAt(probeAt, func(r column.Row) error { gotN, _ = r.Int32("n"); gotS, _ = r.String("s"); return nil })
						if gotN != wantN || gotS != wantS {
							addV(fmt.Sprintf("[%s] after Snapshot returned (err=%v) a transaction writing n=%d s=%q to row %d reads back n=%d s=%q", shapes[si], err, wantN, wantS, probeAt, gotN, gotS), script)
						}
					}
					if shape == 3 && ((rep.Tier != "thorough" && rep.Cases%41 != 0) || (rep.Tier == "thorough" && rep.Cases%13 != 0)) {
						continue // the full restore comparison of the big collection is sampled
					}
					before := c.Count()
					idx, ierr := c.Insert(func(r column.Row) error { r.SetInt32("n", 77); return nil })
					if ierr != nil || c.Count() != before+1 {
						addV(fmt.Sprintf("[%s] after a failed snapshot an insert did not commit normally (err=%v)", shapes[si], ierr), script)
					}
					c.DeleteAt(idx)
					var good bytes.Buffer
					if gerr := c.Snapshot(&good); gerr != nil {
						addV(fmt.Sprintf("[%s] after a failed snapshot, Snapshot to a healthy writer failed: %v", shapes[si], gerr), script)
					} else {
						q := snapfailColl(0)
						if rerr := q.Restore(bytes.NewReader(good.Bytes())); rerr != nil {
							addV(fmt.Sprintf("[%s] the healthy snapshot taken after a failed one does not restore: %v", shapes[si], rerr), script)
						} else if snapDump(q) != snapDump(c) {
							addV(fmt.Sprintf("[%s] the healthy snapshot taken after a failed one restores to a different state", shapes[si]), script)
						}
						q.Close()
					}
				}
			}
		}
		if stuck {
			continue // the collection is wedged; it is abandoned (not closed)
		}
		// a second snapshot while one is in progress is refused and leaves nothing behind
		var inner error
		fdB, tmpB := countFds(), countTemps()
		column.VerifSetYield(func(p string) {
			if p == "s:opened" {
				var b bytes.Buffer
				inner = c.Snapshot(&b)
			}
		})
		var outer bytes.Buffer
		oerr := c.Snapshot(&outer)
		column.VerifSetYield(nil)
		rep.Cases++
		if inner == nil {
			addV(fmt.Sprintf("[%s] a snapshot requested while another one is in progress was not refused", shapes[si]), nil)
		}
		if oerr != nil || countFds() != fdB || countTemps() != tmpB || c.VerifRecording() {
			addV(fmt.Sprintf("[%s] a refused concurrent snapshot disturbed the running one or leaked (outer err=%v, fd %+d, temp %+d, recorder=%v)", shapes[si], oerr, countFds()-fdB, countTemps()-tmpB, c.VerifRecording()), nil)
		}
		lines = append(lines, "snapres 1 0 0 0")
		want = append(want, fmt.Sprintf("rec=%v dfd=%d dtemp=%d dgo=%d err=%v", true, 0, 0, 0, inner != nil))
		// goroutines: a snapshot that leaves a running goroutine (and its buffers) behind every time exhausts the
		// process after some thousands of snapshots — "the collection keeps working" does not survive that
		time.Sleep(20 * time.Millisecond)
		if gor1 := runtime.NumGoroutine(); gor1-gor0 > 24 {
			addV(fmt.Sprintf("[%s] %d snapshots left %d goroutines behind (%d before, %d after): every Snapshot leaves something running", shapes[si], len(faults)*reps, gor1-gor0, gor0, gor1), nil)
		}
		if fd1 := countFds(); fd1 != fd0 {
			addV(fmt.Sprintf("[%s] %d snapshots changed the number of open descriptors from %d to %d", shapes[si], len(faults)*reps, fd0, fd1), nil)
		}
		if len(rep.Samples) < 3 {
			rep.Samples = append(rep.Samples, map[string]interface{}{"shape": shapes[si], "snapshot_bytes": size, "write_calls": calls, "faults_injected": len(faults) * reps})
		}
		c.Close()
	}
	// failing snapshots beside a running writer on a collection that has a commit log (Options.Writer): whatever
	// happens to the snapshots, every committed transaction reaches the commit log exactly once
	{
		rounds := 60
		if rep.Tier == "thorough" {
			rounds = 600
		}
		lg := &countLogger{}
		c := column.NewCollection(column.Options{Capacity: 64, Vacuum: 24 * time.Hour, Writer: lg})
		c.CreateColumn("n", column.ForInt32())
		c.CreateColumn("s", column.ForString())
		offs := []uint32{0, 1, 16384, 16385, 32768}
		insertMarkers(c, offs...)
		base := atomic.LoadInt64(&lg.n)
		var stop int32
		var acked int64
		var wg sync.WaitGroup
		for w := 0; w < 3; w++ {
			wg.Add(1)
			go func(w int) {
				defer wg.Done()
				for i := 0; atomic.LoadInt32(&stop) == 0; i++ {
					o := offs[(i+w)%len(offs)]
					c.QueryAt(o, func(r column.Row) error { r.SetInt32("n", int32(i)); return nil })
					atomic.AddInt64(&acked, 1)
				}
			}(w)
		}
		r := rand.New(rand.NewSource(rep.Seed))
		for i := 0; i < rounds; i++ {
			w := &failWriter{budget: -1}
			switch r.Intn(3) {
			case 0:
				w.failAtCall = 1 + r.Intn(4)
			case 1:
				w.budget = r.Intn(600)
			}
			w.forever = r.Intn(2) == 0
			c.Snapshot(w)
			rep.Cases++
		}
		atomic.StoreInt32(&stop, 1)
		wg.Wait()
		if got := atomic.LoadInt64(&lg.n) - base; got != acked {
			addV(fmt.Sprintf("[writer+log] %d transactions committed beside %d snapshots to failing writers, the collection's commit log received %d commits", acked, rounds, got), []string{"shape writer+log"})
		}
		if c.VerifRecording() {
			addV("[writer+log] the recorder is still installed after the last snapshot returned", []string{"shape writer+log"})
		}
		c.Close()
		rep.count(fmt.Sprintf("writer+log: commits=%d", acked))
	}
	outs, err := runLean("codec", []Case{{Name: "snapres", Lines: lines}})
	if err != nil {
		rep.Violations = append(rep.Violations, Violation{Property: rep.Property, Kind: "correspondence", Clause: "lean driver failed: " + err.Error()})
	} else if d := firstDiff(want, outs[0]); d >= 0 {
		v := Violation{Property: rep.Property, Kind: "correspondence", Clause: fmt.Sprintf("resource model and implementation differ for %s: implementation %s, model %s", lines[d], want[d], outs[0][d]),
			Script: []string{lines[0], lines[d]}, GoOut: []string{"ok", want[d]}, LeanOut: []string{"ok", outs[0][d]}}
		writeReplay(rep.Property, "snapfail", &v)
		rep.Violations = append(rep.Violations, v)
	}
	rep.Lines = len(lines)
	rep.Rule = "for an empty, a one-chunk, a three-chunk collection, a collection whose single chunk exceeds the 1 MB s2 block (the destination is written to in the middle of a chunk), and the one-/three-chunk collections with a transaction committing while the snapshot is written (non-empty recorded log): the destination writer fails at every write call index k (1..calls+1) and at byte budgets n (every n for small snapshots / thorough tier, ~150 evenly spaced otherwise), fail-once and fail-forever; after every call: error iff the writer failed, recorder released, /proc/self/fd and the private TMPDIR unchanged, and (sampled; always for the big chunk) a write to every chunk commits within 10 s, an insert commits and a healthy snapshot restores to the same state; a second snapshot during a running one is refused without leak; each call's observed (recorder, fd delta, temp delta, error) is compared with the Lean resource model; non-trivial = calls in which the writer actually failed"
}

// countLogger counts the commits a collection hands to its commit log
type countLogger struct{ n int64 }

func (l *countLogger) Append(commit.Commit) error { atomic.AddInt64(&l.n, 1); return nil }

// settledGoroutines: the number of goroutines once those that are merely on their way out have gone (a goroutine whose
// function has returned is still counted for an instant). `expect` < 0: the baseline before a call — wait until two
// readings half a millisecond apart agree (the wrapper goroutine of the previous call, the vacuum goroutine of a
// collection just closed); otherwise wait up to 10 ms for the count to come back to `expect`.
func settledGoroutines(expect int) int {
	n := runtime.NumGoroutine()
	if expect < 0 {
		for i := 0; i < 40; i++ {
			time.Sleep(500 * time.Microsecond)
			m := runtime.NumGoroutine()
			if m == n {
				break
			}
			n = m
		}
		return n
	}
	for i := 0; i < 50 && n != expect; i++ {
		time.Sleep(200 * time.Microsecond)
		n = runtime.NumGoroutine()
	}
	return n
}

// goroutineDelta: goroutines a call left behind. A count that went *down* means a goroutine of something earlier ended
// during the call; that is no leak of this call.
func goroutineDelta(before, after int) int {
	if after < before {
		return 0
	}
	return after - before
}

func b2i(b bool) int {
	if b {
		return 1
	}
	return 0
}
