package main

import (
	"bytes"
	"encoding/binary"
	"fmt"
	"math/rand"
	"os"
	"path/filepath"
	"runtime"
	"strings"
	"sync"
	"sync/atomic"
	"time"

	"github.com/kelindar/column"
	"github.com/kelindar/column/commit"
)

// ---------------------------------------------------------------------------------------------
// stress mode (C18, also C10/C09/C11 under real parallelism): free-running goroutines, no
// scheduler. Built with -race by ./check for C18; the race log is parsed by the check. A worker
// that makes no progress for 20 s is a deadlock.
// ---------------------------------------------------------------------------------------------

// ctr is a binary record with an additive user merge (record merges go through pooled scratch objects)
type ctr struct{ n, pad int64 }

func (r *ctr) MarshalBinary() ([]byte, error) {
	var b [16]byte
	binary.BigEndian.PutUint64(b[:8], uint64(r.n))
	binary.BigEndian.PutUint64(b[8:], uint64(r.pad))
	return b[:], nil
}

func (r *ctr) UnmarshalBinary(d []byte) error {
	if len(d) != 16 {
		return fmt.Errorf("ctr: %d bytes", len(d))
	}
	r.n = int64(binary.BigEndian.Uint64(d[:8]))
	r.pad = int64(binary.BigEndian.Uint64(d[8:]))
	return nil
}

func stressColl() *column.Collection {
	c := column.NewCollection(column.Options{Capacity: 64, Vacuum: 5 * time.Millisecond})
	c.CreateColumn("a", column.ForInt64())
	c.CreateColumn("b", column.ForInt64())
	c.CreateColumn("sum", column.ForInt64())
	c.CreateColumn("s", column.ForString())
	c.CreateColumn("flag", column.ForBool())
	c.CreateColumn("rc", column.ForRecord(func() *ctr { return new(ctr) }, column.WithMerge(func(v, d *ctr) *ctr {
		runtime.Gosched() // a user merge function may block or yield: other merges run meanwhile
		v.n += d.n
		v.pad = d.pad
		return v
	})))
	c.CreateIndex("big", "a", func(r column.Reader) bool { return r.Int() > 100 })
	c.CreateIndex("even", "a", func(r column.Reader) bool { return r.Int()%2 == 0 })
	return c
}

// growthWitness drives the one mix the race detector is known to flag on the unchanged tree
// (finding D19): typed point reads and a filter on chunk 0 beside a writer whose commit adds
// chunks 1 and 2 to the columns. Under -race the reports land in the race log which ./check
// classifies by racing pair; without -race this only exercises the code.
func growthWitness(rep *Report) {
	c := column.NewCollection(column.Options{Capacity: 64})
	c.CreateColumn("a", column.ForInt64())
	c.CreateColumn("s", column.ForString())
	for i := 0; i < 100; i++ {
		c.Insert(func(r column.Row) error { r.SetInt64("a", int64(i)); r.SetString("s", "x"); return nil })
	}
	var stop int32
	var wg sync.WaitGroup
	var reads int64
	for w := 0; w < 3; w++ {
		wg.Add(1)
		go func(w int) {
			defer wg.Done()
			for atomic.LoadInt32(&stop) == 0 {
				if w == 0 {
					c.Query(func(txn *column.Txn) error {
						txn.WithInt("a", func(v int64) bool { return v > 5 }).Count()
						return nil
					})
				} else {
					c.QueryAt(uint32(w), func(row column.Row) error { row.Int64("a"); row.String("s"); return nil })
				}
				atomic.AddInt64(&reads, 1)
			}
		}(w)
	}
	for round := 0; round < 3; round++ {
		c.Query(func(txn *column.Txn) error {
			for i := 0; i < 16384; i++ {
				txn.Insert(func(row column.Row) error { row.SetInt64("a", 1); return nil })
			}
			return nil
		})
		time.Sleep(2 * time.Millisecond)
	}
	atomic.StoreInt32(&stop, 1)
	wg.Wait()
	c.Close()
	rep.count(fmt.Sprintf("growth-witness-reads=%d", reads))
}

// lateIndexWitness: an index created on a collection that already spans three chunks, none of whose rows
// satisfies the rule yet (so the back-fill sets no bit); then two writers make rows of chunk 1 and chunk 2
// satisfy it at the same time. Each commits under its own chunk latch into the index's one flat bitmap
// (defect D25, repaired: the bitmap must already cover every allocated chunk).
func lateIndexWitness(rep *Report) {
	bad := 0
	for iter := 0; iter < 40; iter++ {
		c := column.NewCollection(column.Options{Capacity: 64, Vacuum: 24 * time.Hour})
		c.CreateColumn("a", column.ForInt64())
		insertMarkers(c, 0, 16384, 32768)
		for _, r := range []uint32{0, 16384, 32768} {
			c.QueryAt(r, func(row column.Row) error { row.SetInt64("a", 0); return nil })
		}
		c.CreateIndex("pos", "a", func(r column.Reader) bool { return r.Int() > 0 })
		var wg sync.WaitGroup
		start := make(chan struct{})
		for _, r := range []uint32{16384, 32768} {
			wg.Add(1)
			go func(r uint32) {
				defer wg.Done()
				<-start // both first commits (the ones that would have to grow the bitmap) start together
				for i := 0; i < 3; i++ {
					c.QueryAt(r, func(row column.Row) error { row.SetInt64("a", int64(i+1)); return nil })
				}
			}(r)
		}
		close(start)
		wg.Wait()
		n := 0
		c.Query(func(txn *column.Txn) error { n = txn.With("pos").Count(); return nil })
		if n != 2 {
			bad++
		}
		c.Close()
	}
	if bad > 0 {
		v := Violation{Property: rep.Property, Kind: "oracle",
			Clause: fmt.Sprintf("late index: in %d of 40 rounds an index over two rows with positive values (chunks 1 and 2, written concurrently) does not select exactly those two", bad), Script: []string{"stress lateIndexWitness"}}
		writeReplay(rep.Property, "stress", &v)
		rep.Violations = append(rep.Violations, v)
	}
	rep.count("late-index-witness")
}

// triggerChurn: permanent triggers P1, P2 on a column registered AFTER four transient ones; a dropper removes
// the transient triggers (each drop shifts P1, P2 in the column's list of computed columns) while a writer
// commits one store per transaction. Every committed store must reach P1 and P2 exactly once.
func triggerChurn(rep *Report) {
	rounds := 150
	if rep.Tier == "thorough" {
		rounds = 3000
	}
	bad := ""
	for iter := 0; iter < rounds && bad == ""; iter++ {
		c := column.NewCollection(column.Options{Capacity: 64, Vacuum: 24 * time.Hour})
		c.CreateColumn("a", column.ForInt64())
		c.Insert(func(r column.Row) error { r.SetInt64("a", 0); return nil })
		var p1, p2, tr int64
		for k := 0; k < 4; k++ {
			c.CreateTrigger(fmt.Sprintf("t%d", k), "a", func(column.Reader) { atomic.AddInt64(&tr, 1) })
		}
		c.CreateTrigger("p1", "a", func(column.Reader) { atomic.AddInt64(&p1, 1) })
		c.CreateTrigger("p2", "a", func(column.Reader) { atomic.AddInt64(&p2, 1) })
		const commits = 120
		var wg sync.WaitGroup
		start := make(chan struct{})
		wg.Add(2)
		go func() {
			defer wg.Done()
			<-start
			for i := 0; i < commits; i++ {
				c.QueryAt(0, func(row column.Row) error { row.SetInt64("a", int64(i)); return nil })
			}
		}()
		go func() {
			defer wg.Done()
			<-start
			for k := 0; k < 4; k++ {
				for j := 0; j < 300*(iter%5); j++ {
					runtime.Gosched() // spread the drops over the writer's run
				}
				c.DropTrigger(fmt.Sprintf("t%d", k))
			}
		}()
		close(start)
		wg.Wait()
		if p1 != commits || p2 != commits {
			bad = fmt.Sprintf("round %d: %d transactions committed one store each to column a; trigger p1 was called %d times, p2 %d times (transient triggers on the same column were dropped meanwhile)", iter, commits, p1, p2)
		}
		c.Close()
	}
	if bad != "" {
		v := Violation{Property: rep.Property, Kind: "oracle", Clause: bad, Script: []string{"stress triggerChurn"}}
		writeReplay(rep.Property, "stress", &v)
		rep.Violations = append(rep.Violations, v)
	}
	rep.count(fmt.Sprintf("trigger-churn-rounds=%d", rounds))
}

// logFileWitness: a log *file* as the change stream while several writers commit at once to different 16K-row
// blocks (commits to one block are serialised by the block latch, commits to different blocks reach Log.Append
// concurrently). Afterwards the file is read back and replayed into a fresh replica, which must hold exactly the
// primary's rows; the file must hold every commit, in an order that preserves each block's own order.
func logFileWitness(rep *Report) {
	rounds, writers, perWriter := 6, 4, 250
	if rep.Tier == "thorough" {
		rounds, writers, perWriter = 60, 6, 600
	}
	bad := ""
	for iter := 0; iter < rounds && bad == ""; iter++ {
		// a round that does not finish (a writer or the reader of the file stuck) is reported, not waited for
		done := make(chan string, 1)
		go func() { done <- logFileRound(iter, writers, perWriter) }()
		select {
		case bad = <-done:
		case <-time.After(90 * time.Second):
			buf := make([]byte, 1<<20)
			buf = buf[:runtime.Stack(buf, true)]
			bad = fmt.Sprintf("round %d: %d writers on different blocks with a log file as the change stream: the round (writers, then reading the file back) did not finish within 90 s; goroutines: %s", iter, writers, clip(repoFrames(string(buf)), 1500))
		}
		rep.Cases++
		rep.DistinctNontrivial++
	}
	if bad != "" {
		v := Violation{Property: rep.Property, Kind: "oracle", Clause: bad, Script: []string{"stress logFileWitness"}}
		writeReplay(rep.Property, "stress", &v)
		rep.Violations = append(rep.Violations, v)
	}
	rep.count(fmt.Sprintf("log-file-rounds=%d writers=%d commits-per-writer=%d", rounds, writers, perWriter))
}

// repoFrames keeps the lines of a goroutine dump that name functions of the library
func repoFrames(dump string) string {
	var out []string
	for _, l := range strings.Split(dump, "\n") {
		if strings.Contains(l, "kelindar/column") && !strings.HasPrefix(l, "\t") {
			out = append(out, strings.TrimSpace(l))
		}
	}
	return strings.Join(out, " | ")
}

func logFileRound(iter, writers, perWriter int) (bad string) {
	{
		dir, err := os.MkdirTemp("", "verif-c06-")
		if err != nil {
			return "cannot create a scratch directory: " + err.Error()
		}
		path := filepath.Join(dir, "stream.log")
		logw, err := commit.OpenFile(path)
		if err != nil {
			os.RemoveAll(dir)
			return "cannot open the log file: " + err.Error()
		}
		mk := func(w commit.Logger) *column.Collection {
			c := column.NewCollection(column.Options{Capacity: 64, Vacuum: 24 * time.Hour, Writer: w})
			c.CreateColumn("v", column.ForInt64())
			c.CreateColumn("s", column.ForString())
			return c
		}
		p := mk(logw)
		// one row at the start of each block (markers in between, so that the offsets exist)
		p.Query(func(txn *column.Txn) error {
			for i := 0; i < writers*16384; i++ {
				txn.Insert(func(r column.Row) error {
					if i%16384 == 0 {
						r.SetInt64("v", 0)
					}
					return nil
				})
			}
			return nil
		})
		var wg sync.WaitGroup
		start := make(chan struct{})
		for w := 0; w < writers; w++ {
			wg.Add(1)
			go func(w int) {
				defer wg.Done()
				<-start
				for k := 1; k <= perWriter; k++ {
					p.QueryAt(uint32(w*16384+k%50), func(r column.Row) error {
						r.SetInt64("v", int64(w*1000000+k))
						r.SetString("s", fmt.Sprintf("w%d-%d", w, k))
						return nil
					})
				}
			}(w)
		}
		close(start)
		wg.Wait()
		want := dumpVS(p)
		p.Close()
		logw.Close()
		// read the file back into a replica
		rd, err := commit.OpenFile(path)
		replica := mk(nil)
		n := 0
		var rerr error
		func() {
			defer func() {
				if x := recover(); x != nil {
					rerr = fmt.Errorf("panic: %v", x)
				}
			}()
			if err == nil {
				rerr = rd.Range(func(cm commit.Commit) error { n++; return replica.Replay(cm) })
			} else {
				rerr = err
			}
		}()
		if rd != nil {
			rd.Close()
		}
		got := dumpVS(replica)
		replica.Close()
		os.RemoveAll(dir)
		wantCommits := writers + writers*perWriter
		switch {
		case rerr != nil:
			bad = fmt.Sprintf("round %d: %d writers committed %d transactions to different blocks with a log file as the change stream; reading the file back failed after %d commits: %v", iter, writers, wantCommits, n, rerr)
		case n != wantCommits:
			bad = fmt.Sprintf("round %d: %d commits were made (%d writers on different blocks, log file as the change stream), the file holds %d", iter, wantCommits, writers, n)
		case got != want:
			bad = fmt.Sprintf("round %d: the replica fed the log file differs from the primary (%d commits, %d writers on different blocks): primary %s, replica %s", iter, wantCommits, writers, clip(want, 300), clip(got, 300))
		}
	}
	return bad
}

// dumpVS lists the rows holding a value in "v" with their "v" and "s"
func dumpVS(c *column.Collection) string {
	var sb strings.Builder
	c.Query(func(txn *column.Txn) error {
		v, s := txn.Int64("v"), txn.String("s")
		return txn.With("v").Range(func(idx uint32) {
			a, _ := v.Get()
			b, _ := s.Get()
			fmt.Fprintf(&sb, "%d=%d/%s ", idx, a, b)
		})
	})
	fmt.Fprintf(&sb, "count=%d", c.Count())
	return sb.String()
}

func runStress(rep *Report, replay string) {
	if rep.Property == "C06" {
		logFileWitness(rep)
		rep.Rule = "log file as the change stream under concurrent writers: per round a primary logging to a file, one writer per 16K-row block committing single-row transactions at once, then the file is read back and replayed into a fresh replica; the file must hold every commit and the replica must equal the primary"
		return
	}
	if rep.Property == "C19" {
		// this property's concurrent part only: triggers beside trigger creation / removal
		triggerChurn(rep)
		rep.Cases, rep.DistinctNontrivial = 150, 150
		rep.Rule = "trigger churn: per round a fresh collection with four transient and two permanent triggers on one column, a writer committing 120 single-store transactions while the transient triggers are dropped; the permanent triggers must count exactly 120 calls each"
		return
	}
	dur := 3 * time.Second
	if rep.Tier == "thorough" {
		dur = 40 * time.Second
	}
	if v := envInt("VERIF_STRESS_MS"); v > 0 {
		dur = time.Duration(v) * time.Millisecond
	}
	addV := func(class, clause string) {
		if len(rep.Violations) < 5 {
			v := Violation{Property: rep.Property, Kind: "oracle", Clause: clause, Script: []string{"stress seed " + fmt.Sprint(rep.Seed), clause}}
			writeReplay(rep.Property, "stress", &v)
			rep.Violations = append(rep.Violations, v)
		}
		rep.count("fail:" + class)
	}
	if rep.Property == "C18" && replay == "" {
		growthWitness(rep)
		lateIndexWitness(rep)
		triggerChurn(rep)
	}
	c := stressColl()
	// initial population: rows keep the invariant a + b = sum, s = decimal(a)
	for i := 0; i < 500; i++ {
		c.Insert(func(r column.Row) error {
			r.SetInt64("a", int64(i))
			r.SetInt64("b", int64(2*i))
			r.SetInt64("sum", int64(3*i))
			r.SetString("s", fmt.Sprint(i))
			return nil
		})
	}
	// two counter rows holding a record, one in chunk 0 and one in chunk 1 (merged concurrently)
	recRows := []uint32{460, 16384 + 5}
	insertMarkers(c, recRows[1])
	for _, rr := range recRows {
		c.QueryAt(rr, func(row column.Row) error { return row.SetRecord("rc", &ctr{}) })
	}
	var recMerged [2]int64
	var extended, ttlBase int64
	c.QueryAt(451, func(row column.Row) error { ttlBase = row.SetTTL(1000 * time.Hour).UnixNano(); return nil })
	var stop int32
	var ops int64
	var torn, lost int64
	progress := make([]int64, 16)
	spawned := make([]bool, 16)
	var wg sync.WaitGroup
	worker := func(id int, fn func(r *rand.Rand)) {
		spawned[id] = true
		wg.Add(1)
		go func() {
			defer wg.Done()
			r := rand.New(rand.NewSource(rep.Seed*100 + int64(id)))
			for atomic.LoadInt32(&stop) == 0 {
				fn(r)
				atomic.AddInt64(&progress[id], 1)
				atomic.AddInt64(&ops, 1)
			}
		}()
	}
	// writers: update several columns of one row, preserving the per-row invariant; merges on a counter row
	var merged int64
	for w := 0; w < 4; w++ {
		w := w
		worker(w, func(r *rand.Rand) {
			idx := uint32(r.Intn(400))
			v := int64(r.Intn(1000))
			c.QueryAt(idx, func(row column.Row) error {
				row.SetInt64("a", v)
				row.SetInt64("b", 2*v)
				row.SetInt64("sum", 3*v)
				row.SetString("s", fmt.Sprint(v))
				return nil
			})
			c.QueryAt(450, func(row column.Row) error { row.MergeInt64("b", 1); return nil })
			atomic.AddInt64(&merged, 1)
			// a string written through MergeString (default merge: the delta replaces the value) together with the
			// number it is derived from: a reader must never see a tag that does not spell its number
			tagv := int64(r.Intn(1000000))
			c.QueryAt(470+uint32(w), func(row column.Row) error {
				row.SetInt64("a", tagv)
				row.MergeString("s", fmt.Sprintf("v%06d", tagv))
				return nil
			})
			// the deadline of row 451 is extended by one nanosecond (Extend is a merge into the expire column)
			c.Query(func(txn *column.Txn) error {
				return txn.QueryAt(451, func(column.Row) error { txn.TTL().Extend(1); return nil })
			})
			atomic.AddInt64(&extended, 1)
			// record merge on the counter row of "this" writer's chunk: writers 0,1 → chunk 0; 2,3 → chunk 1
			k := w / 2
			c.QueryAt(recRows[k], func(row column.Row) error { return row.MergeRecord("rc", &ctr{n: 1, pad: int64(w)}) })
			atomic.AddInt64(&recMerged[k], 1)
		})
	}
	// readers: point reads, Range, filtered Range; assert the invariant inside the callback
	checkRow := func(row column.Row, idx uint32) {
		if idx == 450 {
			return
		}
		a, ok1 := row.Int64("a")
		b, ok2 := row.Int64("b")
		s, ok3 := row.Int64("sum")
		if ok1 && ok2 && ok3 && a+b != s {
			atomic.AddInt64(&torn, 1)
		}
	}
	var badTag int64
	for w := 4; w < 8; w++ {
		worker(w, func(r *rand.Rand) {
			if r.Intn(4) == 0 {
				c.QueryAt(470+uint32(r.Intn(4)), func(row column.Row) error {
					a, ok1 := row.Int64("a")
					tag, ok2 := row.String("s")
					if ok1 && ok2 && len(tag) == 7 && tag[0] == 'v' && tag != fmt.Sprintf("v%06d", a) {
						atomic.AddInt64(&badTag, 1)
					}
					return nil
				})
				return
			}
			switch r.Intn(3) {
			case 0:
				idx := uint32(r.Intn(400))
				c.QueryAt(idx, func(row column.Row) error { checkRow(row, idx); return nil })
			case 1:
				c.Query(func(txn *column.Txn) error {
					a, b, s := txn.Int64("a"), txn.Int64("b"), txn.Int64("sum")
					return txn.With("big").Range(func(idx uint32) {
						if idx < 400 {
							x, ok1 := a.Get()
							y, ok2 := b.Get()
							z, ok3 := s.Get()
							if ok1 && ok2 && ok3 && x+y != z {
								atomic.AddInt64(&torn, 1)
							}
						}
					})
				})
			default:
				c.Query(func(txn *column.Txn) error {
					txn.WithInt("a", func(v int64) bool { return v%2 == 0 }).Count()
					return nil
				})
				// the multi-index path of WithUnion on a selection that is already set up (readers only share the read latch)
				c.Query(func(txn *column.Txn) error {
					txn.With("big").WithUnion("big", "even").Count()
					return nil
				})
			}
		})
	}
	// inserters / deleters: grow across chunk boundaries, re-use offsets
	var inserted, deleted int64
	for w := 8; w < 11; w++ {
		worker(w, func(r *rand.Rand) {
			n := 1 + r.Intn(300)
			var mine []uint32
			c.Query(func(txn *column.Txn) error {
				for i := 0; i < n; i++ {
					idx, _ := txn.Insert(func(row column.Row) error {
						row.SetInt64("a", 7)
						row.SetInt64("b", 14)
						row.SetInt64("sum", 21)
						return nil
					})
					mine = append(mine, idx)
				}
				return nil
			})
			atomic.AddInt64(&inserted, int64(n))
			if r.Intn(3) > 0 {
				c.Query(func(txn *column.Txn) error {
					for _, idx := range mine {
						if idx >= 500 && txn.DeleteAt(idx) {
							atomic.AddInt64(&deleted, 1)
						}
					}
					return nil
				})
			}
		})
	}
	// a keyed collection over two chunks: two workers upsert / delete their own keys, one looks keys up
	kc := column.NewCollection(column.Options{Capacity: 64, Vacuum: 24 * time.Hour})
	kc.CreateColumn("k", column.ForKey())
	kc.CreateColumn("v", column.ForInt64())
	kc.Query(func(txn *column.Txn) error {
		for i := 0; i < 16500; i++ {
			txn.InsertKey(fmt.Sprintf("f%d", i), func(r column.Row) error { r.SetInt64("v", int64(i)); return nil })
		}
		return nil
	})
	var keyBad int64
	keyState := [2]map[string]int64{{}, {}} // each worker's own view of its keys (value, or absent)
	for kw := 0; kw < 2; kw++ {
		kw := kw
		worker(13+kw, func(r *rand.Rand) {
			// worker 0 recycles filler keys of chunk 0, worker 1 those of chunk 1 (offsets ≥ 16384)
			key := fmt.Sprintf("f%d", kw*16384+r.Intn(100))
			if kw == 0 {
				key = fmt.Sprintf("f%d", 8000+r.Intn(100))
			}
			st := keyState[kw]
			switch r.Intn(3) {
			case 0:
				if kc.DeleteKey(key) == nil {
					delete(st, key)
				}
			default:
				v := int64(r.Intn(1 << 20))
				if kc.UpsertKey(key, func(row column.Row) error { row.SetInt64("v", v); return nil }) == nil {
					st[key] = v
				}
			}
			// the worker's own keys read back what it wrote last (nobody else touches them)
			probe := key
			want, has := st[probe]
			var got int64
			err := kc.QueryKey(probe, func(row column.Row) error { got, _ = row.Int64("v"); return nil })
			if _, tracked := st[probe]; tracked || !has {
				if has && (err != nil || got != want) {
					atomic.AddInt64(&keyBad, 1)
				}
			}
		})
	}
	worker(15, func(r *rand.Rand) {
		kc.QueryKey(fmt.Sprintf("f%d", r.Intn(16500)), func(row column.Row) error { row.Int64("v"); return nil })
	})
	defer kc.Close()
	// snapshots and restores into other collections
	worker(11, func(r *rand.Rand) {
		var b bytes.Buffer
		if err := c.Snapshot(&b); err == nil {
			q := stressColl()
			if err := q.Restore(bytes.NewReader(b.Bytes())); err != nil {
				addV("restore", "Restore of a snapshot taken under load failed: "+err.Error())
			}
			q.Close()
		}
		time.Sleep(5 * time.Millisecond)
	})
	// index creation beside writers (in the property's mix)
	nIdx := int64(0)
	if rep.Property == "C18" {
		worker(12, func(r *rand.Rand) {
			name := fmt.Sprintf("ix%d", atomic.AddInt64(&nIdx, 1)%3)
			c.CreateIndex(name, "b", func(rd column.Reader) bool { return rd.Int()%2 == 0 })
			time.Sleep(20 * time.Millisecond)
			c.DropIndex(name) // a name is re-used only after its index was dropped
			// a sorted index built beside the writers of its string column
			c.CreateSortIndex("sorted-s", "s")
			time.Sleep(5 * time.Millisecond)
			c.DropIndex("sorted-s")
		})
	}
	// watchdog
	deadline := time.Now().Add(dur)
	last := make([]int64, len(progress))
	stuckSince := make([]time.Time, len(progress))
	for time.Now().Before(deadline) {
		time.Sleep(200 * time.Millisecond)
		for i := range progress {
			p := atomic.LoadInt64(&progress[i])
			if p != last[i] || !spawned[i] {
				last[i] = p
				stuckSince[i] = time.Time{}
			} else if stuckSince[i].IsZero() {
				stuckSince[i] = time.Now()
			} else if time.Since(stuckSince[i]) > 20*time.Second {
				addV("deadlock", fmt.Sprintf("worker %d made no progress for 20 s (deadlock)", i))
				deadline = time.Now()
			}
		}
	}
	atomic.StoreInt32(&stop, 1)
	doneCh := make(chan struct{})
	go func() { wg.Wait(); close(doneCh) }()
	select {
	case <-doneCh:
	case <-time.After(30 * time.Second):
		// name the workers that hang, with their stacks, and touch the wedged collection no further
		var hung []string
		for i := range progress {
			if spawned[i] {
				hung = append(hung, fmt.Sprintf("w%d:%d", i, atomic.LoadInt64(&progress[i])))
			}
		}
		buf := make([]byte, 1<<18)
		n := runtime.Stack(buf, true)
		stacks := string(buf[:n])
		var inRepo []string
		for _, g := range strings.Split(stacks, "\n\n") {
			if strings.Contains(g, "kelindar/column.") && (strings.Contains(g, "sync.(*RWMutex)") || strings.Contains(g, "sync.(*Mutex)") || strings.Contains(g, "smutex")) {
				lines := strings.Split(g, "\n")
				for _, l := range lines {
					if strings.Contains(l, "kelindar/column.") {
						inRepo = append(inRepo, strings.TrimSpace(strings.Split(l, "(0x")[0]))
						break
					}
				}
			}
		}
		addV("deadlock", fmt.Sprintf("workers did not terminate within 30 s after the stop signal (deadlock); progress counters %s; goroutines blocked on a lock inside the library: %s", strings.Join(hung, " "), clip(strings.Join(inRepo, ", "), 600)))
		rep.Cases = int(ops)
		rep.DistinctNontrivial = int(ops)
		rep.Rule = "free-running goroutines (see DESIGN.md); the run ended in a deadlock"
		return
	}
	if badTag > 0 {
		addV("torn", fmt.Sprintf("%d reads inside a callback saw a string tag that does not spell the number committed with it (a value no transaction committed)", badTag))
	}
	if keyBad > 0 {
		addV("keys", fmt.Sprintf("%d lookups of a key right after its owner upserted it did not return the row just written", keyBad))
	}
	if torn > 0 {
		addV("torn", fmt.Sprintf("%d reads inside a callback saw a+b≠sum on a row whose writers always preserve it (half-applied commit)", torn))
	}
	// merges are never lost
	var counter int64
	c.QueryAt(450, func(row column.Row) error { counter, _ = row.Int64("b"); return nil })
	if counter != 900+merged {
		addV("lost", fmt.Sprintf("counter row: %d after %d committed +1 merges onto 900 (lost %d)", counter, merged, 900+merged-counter))
		lost++
	}
	for k, rr := range recRows {
		var got int64 = -1
		c.QueryAt(rr, func(row column.Row) error {
			if v, ok := row.Record("rc"); ok {
				got = v.(*ctr).n
			}
			return nil
		})
		if got != recMerged[k] {
			addV("lost", fmt.Sprintf("record counter at row %d: %d after %d committed +1 record merges (chunk %d; merges of the other chunk ran concurrently)", rr, got, recMerged[k], k))
		}
	}
	var ttlNow int64
	c.QueryAt(451, func(row column.Row) error { ttlNow, _ = row.Int64("expire"); return nil })
	if ttlNow != ttlBase+extended {
		addV("lost", fmt.Sprintf("deadline of row 451: %d extensions of 1 ns committed, the deadline moved by %d ns (lost %d)", extended, ttlNow-ttlBase, ttlBase+extended-ttlNow))
	}
	// Count = live rows at quiescence
	live := 0
	c.Query(func(txn *column.Txn) error { return txn.Range(func(uint32) { live++ }) })
	if c.Count() != live {
		addV("count", fmt.Sprintf("all workers finished: Count()=%d but %d rows are live", c.Count(), live))
	}
	c.Close()
	rep.Cases = int(ops)
	rep.DistinctNontrivial = int(ops)
	rep.count(fmt.Sprintf("operations=%d", ops))
	rep.Samples = append(rep.Samples, map[string]interface{}{"workers": "4 multi-column writers + merges, 4 readers (QueryAt, filtered Range, WithInt.Count), 3 bulk inserters/deleters crossing chunk boundaries, snapshot+restore, index creation (C18 only), vacuum at 5 ms", "duration": dur.String(), "operations": ops, "inserted": inserted, "deleted": deleted})
	rep.Rule = "free-running goroutines (no scheduler) on one collection for a fixed time: writers updating three columns of a row under the invariant a+b=sum plus +1 merges on a counter row, readers asserting the invariant inside QueryAt / filtered Range callbacks, bulk inserters and deleters growing the collection across 16K chunks and re-using offsets, a snapshot+restore loop, index creation beside writers, the vacuum goroutine; a 20 s no-progress watchdog; with -race (C18) every report is reduced to the unordered pair of top frames inside /repo; evaluations = operations completed"
}
