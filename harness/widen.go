package main

import (
	"encoding/binary"
	"fmt"
	"math/rand"

	"github.com/kelindar/column"
	"github.com/kelindar/column/commit"
)

// `widen` mode: the any-size integer readers (Reader.Int / Reader.Uint) and the path that reaches them through the
// public API — a narrower integer handed to Row.SetAny / Row.SetMany / txn.Any(col).Set for an `int` / `uint`
// column — against the model's readIntAny / readUintAny / widenInt (driver op `readany`).

// readerAny puts `val` (any width) as one operation and reads it back with Reader.Int and Reader.Uint
func readerAny(val []byte) (string, string) {
	buf := commit.NewBuffer(8)
	switch len(val) {
	case 2:
		buf.PutUint16(commit.Put, 7, binary.BigEndian.Uint16(val))
	case 4:
		buf.PutUint32(commit.Put, 7, binary.BigEndian.Uint32(val))
	case 8:
		buf.PutUint64(commit.Put, 7, binary.BigEndian.Uint64(val))
	default:
		buf.PutBytes(commit.Put, 7, val)
	}
	rd := commit.NewReader()
	rd.Seek(buf)
	if !rd.Next() {
		return "none", "none"
	}
	get := func(f func() string) (out string) {
		defer func() {
			if recover() != nil {
				out = "panic"
			}
		}()
		return f()
	}
	return get(func() string { return fmt.Sprint(int64(rd.Int())) }), get(func() string { return fmt.Sprint(uint64(rd.Uint())) })
}

func runWiden(rep *Report, replay string) {
	r := rand.New(rand.NewSource(rep.Seed))
	var vals [][]byte
	edge := []uint64{0, 1, 2, 0x7f, 0x80, 0xff, 0x100, 0x7fff, 0x8000, 0xffff, 0x10000, 0x7fffffff, 0x80000000, 0xffffffff,
		0x100000000, 0x7fffffffffffffff, 0x8000000000000000, 0xffffffffffffffff, 0xfffffffffffffff4, 0xfff4, 0xfffffff4}
	for _, w := range []int{2, 4, 8} {
		for _, e := range edge {
			b := make([]byte, 8)
			binary.BigEndian.PutUint64(b, e)
			vals = append(vals, b[8-w:])
		}
	}
	n := 400
	if rep.Tier == "thorough" {
		n = 20000
	}
	for i := 0; i < n; i++ {
		w := []int{2, 4, 8}[r.Intn(3)]
		b := make([]byte, w)
		r.Read(b)
		if r.Intn(3) == 0 { // near the sign boundary
			b[0] = []byte{0x7f, 0x80, 0xff, 0x00}[r.Intn(4)]
		}
		vals = append(vals, b)
	}
	for _, w := range []int{0, 1, 3, 5, 6, 7, 9, 16} { // widths the readers reject
		b := make([]byte, w)
		r.Read(b)
		vals = append(vals, b)
	}

	// the column-level path: one collection, an `int` and a `uint` column, one row per value
	c := column.NewCollection()
	c.CreateColumn("i", column.ForInt())
	c.CreateColumn("u", column.ForUint())
	defer c.Close()

	lines := []string{"new w"}
	want := []string{"ok"}
	for k, b := range vals {
		ri, ru := readerAny(b)
		islot, uslot := "panic", "panic"
		if len(b) == 2 || len(b) == 4 || len(b) == 8 {
			// the Go value of the narrower type; three writers in rotation
			var iv, uv any
			switch len(b) {
			case 2:
				iv, uv = int16(binary.BigEndian.Uint16(b)), binary.BigEndian.Uint16(b)
			case 4:
				iv, uv = int32(binary.BigEndian.Uint32(b)), binary.BigEndian.Uint32(b)
			case 8:
				iv, uv = int64(binary.BigEndian.Uint64(b)), binary.BigEndian.Uint64(b)
			}
			idx, err := c.Insert(func(row column.Row) error {
				switch k % 3 {
				case 0:
					row.SetAny("i", iv)
					row.SetAny("u", uv)
				case 1:
					return row.SetMany(map[string]any{"i": iv, "u": uv})
				}
				return nil
			})
			if err == nil && k%3 == 2 {
				err = c.Query(func(txn *column.Txn) error {
					return txn.QueryAt(idx, func(column.Row) error {
						txn.Any("i").Set(iv)
						txn.Any("u").Set(uv)
						return nil
					})
				})
			}
			if err != nil {
				islot, uslot = "err", "err"
			} else {
				c.QueryAt(idx, func(row column.Row) error {
					islot, uslot = "absent", "absent"
					if v, ok := row.Int("i"); ok {
						islot = hexOf(be(uint64(v), 8))
					}
					if v, ok := row.Uint("u"); ok {
						uslot = hexOf(be(uint64(v), 8))
					}
					return nil
				})
			}
			rep.count(fmt.Sprintf("width=%d writer=%s", len(b), []string{"Row.SetAny", "Row.SetMany", "txn.Any.Set"}[k%3]))
			rep.DistinctNontrivial++
		} else {
			rep.count("rejected-width")
		}
		lines = append(lines, "readany "+hexOf(b))
		want = append(want, fmt.Sprintf("int=%s uint=%s islot=%s uslot=%s", ri, ru, islot, uslot))
		rep.Cases++
	}
	outs, err := runLean("codec", []Case{{Name: "widen", Lines: lines}})
	if err != nil {
		rep.Violations = append(rep.Violations, Violation{Property: rep.Property, Kind: "correspondence", Clause: "lean driver failed: " + err.Error()})
	} else {
		for d := range want {
			if want[d] != outs[0][d] && len(rep.Violations) < 5 {
				v := Violation{Property: rep.Property, Kind: "correspondence",
					Clause: fmt.Sprintf("an integer of %d bytes read by an int / uint column: implementation %s, model %s (%s)", (len(lines[d])-8)/2, want[d], outs[0][d], lines[d]),
					Script: []string{lines[0], lines[d]}, GoOut: []string{"ok", want[d]}, LeanOut: []string{"ok", outs[0][d]}}
				writeReplay(rep.Property, "widen", &v)
				rep.Violations = append(rep.Violations, v)
			}
		}
	}
	// the writer side: Buffer.PutAny with every Go integer type (what SetAny / SetMany hand it) against putAnyInt
	nAny := 60
	if rep.Tier == "thorough" {
		nAny = 3000
	}
	pcs := putAnyCases(r, nAny)
	if louts, err := runLean("codec", pcs); err != nil {
		rep.Violations = append(rep.Violations, Violation{Property: rep.Property, Kind: "correspondence", Clause: "lean driver failed: " + err.Error()})
	} else {
		for i, pc := range pcs {
			g := runGo(newCodecImpl, pc)
			rep.Cases++
			rep.DistinctNontrivial++
			rep.count("putany-case")
			d := firstDiff(g, louts[i])
			msg := codecOracle(pc, g)
			if (d >= 0 || msg != "") && len(rep.Violations) < 5 {
				clause := msg
				kind := "oracle"
				if d >= 0 {
					kind = "correspondence"
					clause = fmt.Sprintf("Buffer.PutAny: model and implementation differ at line %d (%s)", d, clip(pc.Lines[d], 80))
				}
				v := Violation{Property: rep.Property, Kind: kind, Clause: clause, Script: pc.Lines, GoOut: g, LeanOut: louts[i]}
				writeReplay(rep.Property, "widen", &v)
				rep.Violations = append(rep.Violations, v)
			}
		}
	}
	rep.Lines = len(lines)
	if len(rep.Samples) < 3 {
		rep.Samples = append(rep.Samples, map[string]interface{}{"line": lines[len(edge)], "implementation": want[len(edge)]})
	}
	rep.Rule = "every edge value (0, ±1 around each sign and width boundary) at widths 2, 4 and 8 bytes, random values (a third forced next to a sign boundary) and eight widths the readers reject; each value is read from a commit buffer with Reader.Int and Reader.Uint, and — as the Go value of the narrower type — stored into an `int` and a `uint` column through Row.SetAny, Row.SetMany and txn.Any(col).Set in rotation and read back with Row.Int / Row.Uint; all four answers are compared with the model's readIntAny / readUintAny / widenInt; plus Buffer.PutAny with every Go integer type (int8 … uint) at edge and random values against the model's putAnyInt, byte-exact; non-trivial = values of an accepted width"
}
