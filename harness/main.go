package main

import (
	"flag"
	"fmt"
	"math/rand"
	"os"
	"strings"
	"time"
)

// Usage: harness <mode> -prop C05 -tier quick|thorough -seed N -out report.json [-replay file]
func main() {
	if len(os.Args) < 2 {
		fmt.Fprintln(os.Stderr, "usage: harness <mode> [flags]")
		os.Exit(2)
	}
	mode := os.Args[1]
	fs := flag.NewFlagSet(mode, flag.ExitOnError)
	prop := fs.String("prop", "", "property id")
	tier := fs.String("tier", "quick", "quick|thorough")
	seed := fs.Int64("seed", 1, "PRNG seed")
	out := fs.String("out", "-", "report file")
	replay := fs.String("replay", "", "replay file to re-run")
	drv := fs.String("driver", "", "path of the lean driver")
	fs.Parse(os.Args[2:])
	if *drv != "" {
		driverPath = *drv
	}
	start := time.Now()
	rep := newReport(mode, *prop, *seed, *tier)
	switch mode {
	case "codec":
		runCodec(rep, *replay)
	default:
		if !runMode(mode, rep, *replay) {
			fmt.Fprintln(os.Stderr, "unknown mode", mode)
			os.Exit(2)
		}
	}
	rep.finish(start, *out)
	if harnessTmpOwned {
		os.RemoveAll(harnessTmp) // the private temp directory of this run (snapshot recorders, log files)
	}
}

// runScripted is the common driver of all script-based modes: corpus first, then generated
// cases; differential against the model; oracle on the implementation; shrink failures.
func runScripted(rep *Report, leanMode string, mk func() Impl, cases []Case, oracle Oracle, keep int) {
	rep.Cases += len(cases)
	var dc distinctCounter
	for _, c := range cases {
		rep.Lines += len(c.Lines)
		if len(c.Features) > 0 {
			dc.add(c.Lines)
			for _, f := range c.Features {
				rep.count("feature=" + f)
			}
		}
	}
	rep.DistinctNontrivial += dc.n()

	seenV := map[string]bool{}
	addV := func(v Violation) {
		h := hashLines(v.Script)
		if seenV[h] || len(rep.Violations) >= 5 {
			rep.count("violations-not-listed")
			return
		}
		seenV[h] = true
		writeReplay(rep.Property, rep.Mode, &v)
		rep.Violations = append(rep.Violations, v)
	}
	// run in batches to bound memory
	const batch = 2000
	for lo := 0; lo < len(cases); lo += batch {
		hi := lo + batch
		if hi > len(cases) {
			hi = len(cases)
		}
		part := cases[lo:hi]
		t0 := time.Now()
		goOuts, leanOuts, bad, err := differential(leanMode, mk, part)
		if os.Getenv("VERIF_DEBUG") != "" {
			fmt.Fprintf(os.Stderr, "DEBUG differential of %d cases: %v\n", len(part), time.Since(t0))
		}
		if err != nil {
			rep.Violations = append(rep.Violations, Violation{Property: rep.Property, Kind: "correspondence",
				Clause: "lean driver failed: " + err.Error()})
			return
		}
		if lo == 0 {
			for i := 0; i < len(part) && len(rep.Samples) < 3; i++ {
				n := len(part[i].Lines)
				if n > 12 {
					n = 12
				}
				rep.Samples = append(rep.Samples, map[string]interface{}{"name": part[i].Name, "script_head": clipAll(part[i].Lines[:n], 160), "impl_out_head": clipAll(goOuts[i][:n], 160)})
			}
		}
		// oracle on every case (implementation only)
		seenOracle := 0
		for i, c := range part {
			if oracle == nil {
				break
			}
			if msg := oracle(c, goOuts[i]); msg != "" {
				if seenOracle >= 3 {
					rep.count("oracle-failures-not-shrunk")
					continue
				}
				seenOracle++
				deadline := time.Now().Add(25 * time.Second)
				if os.Getenv("VERIF_NOSHRINK") != "" {
					deadline = time.Now()
				}
				small := shrink(c, keep, func(x Case) bool {
					return !time.Now().After(deadline) && oracle(x, runGo(mk, x)) != ""
				})
				gout := runGo(mk, small)
				v := Violation{Property: rep.Property, Kind: "oracle", Clause: oracle(small, gout), Script: small.Lines, GoOut: gout}
				if lo2, e := runLean(leanMode, []Case{small}); e == nil {
					v.LeanOut = lo2[0]
				}
				addV(v)
			}
		}
		if len(rep.Violations) >= 5 {
			return
		}
		// correspondence failures
		for n, i := range bad {
			if n >= 3 {
				rep.count("disagreements-not-shrunk")
				continue
			}
			c := part[i]
			if d0 := firstDiff(goOuts[i], leanOuts[i]); d0 >= 0 && d0+1 < len(c.Lines) {
				c = Case{Name: c.Name, Lines: c.Lines[:d0+1], Features: c.Features, Keep: c.Keep}
			}
			deadline := time.Now().Add(25 * time.Second)
			small := shrink(c, keep, func(x Case) bool {
				if time.Now().After(deadline) {
					return false
				}
				g := runGo(mk, x)
				l, e := runLean(leanMode, []Case{x})
				return e == nil && firstDiff(g, l[0]) >= 0
			})
			g := runGo(mk, small)
			l, _ := runLean(leanMode, []Case{small})
			var lo2 []string
			if len(l) > 0 {
				lo2 = l[0]
			}
			d := firstDiff(g, lo2)
			clause := "model and implementation differ"
			if d >= 0 && d < len(small.Lines) {
				clause = fmt.Sprintf("model and implementation differ at line %d (%s)", d, clip(small.Lines[d], 80))
			}
			kind := "correspondence"
			if oracle != nil {
				if msg := oracle(small, g); msg != "" {
					kind = "oracle"
					clause = msg
				}
			}
			v := Violation{Property: rep.Property, Kind: kind, Clause: clause, Script: small.Lines, GoOut: g, LeanOut: lo2}
			addV(v)
			_ = leanOuts
		}
	}
}

func clipAll(xs []string, n int) []string {
	out := make([]string, len(xs))
	for i, x := range xs {
		out[i] = clip(x, n)
	}
	return out
}

func replayCases(path string) []Case {
	lines, err := readReplay(path)
	if err != nil {
		fmt.Fprintln(os.Stderr, "cannot read replay:", err)
		os.Exit(2)
	}
	return []Case{{Name: "replay:" + path, Lines: lines, Features: []string{"replay"}}}
}

func runCodec(rep *Report, replay string) {
	r := rand.New(rand.NewSource(rep.Seed))
	var cases []Case
	if replay != "" {
		cases = replayCases(replay)
	} else {
		cases = append(cases, corpus("codec")...)
		cases = append(cases, exhaustiveCodec(1, rep)...)
		cases = append(cases, exhaustiveCodec(2, rep)...)
		nRand, nLong, nWire := 1500, 6, 150
		if rep.Tier == "thorough" {
			cases = append(cases, exhaustiveCodecSampled(3, 60000, r, rep)...)
			nRand, nLong, nWire = 40000, 60, 3000
		}
		for i := 0; i < nRand; i++ {
			puts := genPuts(r, 1+r.Intn(30), false, rep)
			cases = append(cases, codecCase(fmt.Sprintf("rand-%d", i), puts, r))
		}
		for i := 0; i < nLong; i++ {
			puts := genPuts(r, 200+r.Intn(800), true, rep)
			c := codecCase(fmt.Sprintf("long-%d", i), puts, r)
			c.Features = append(c.Features, "long")
			cases = append(cases, c)
		}
		cases = append(cases, wireCases(r, nWire, rep)...)
		cases = append(cases, interleavedSwapCases(r, nWire)...)
		cases = append(cases, putAnyCases(r, nWire)...)
		cases = append(cases, readNumCases(r, nWire)...)
		rep.Exhaustive = false
	}
	rep.Rule = "cases = corpus + every sequence of length 1 and 2 over the reduced alphabet {delete,put,merge}×{0,2,8-byte,string}×{same,+1,+2,+128,+16384,-1,-16384,+2^21} (thorough: a sample of length 3) + random sequences (1..30 ops; a few of 200..1000 ops with strings up to 65535 bytes) over all five widths, type nibbles 0..15 and 16 offset moves + serialized buffers/commits whole and truncated; non-trivial = has ≥2 chunk switches, interleaved sections, is exhaustive-enumerated, long, or a wire case; distinct = by SHA-1 of the script"
	runScripted(rep, "codec", newCodecImpl, cases, codecOracle, 1)
	if strings.TrimSpace(replay) != "" {
		rep.Notes = append(rep.Notes, "replay of "+replay)
	}
}

// exhaustiveCodecSampled draws n sequences of the given length uniformly from the reduced alphabet.
func exhaustiveCodecSampled(length, n int, r *rand.Rand, rep *Report) []Case {
	all := exhaustiveCodec(1, newReport("", "", 0, ""))
	var atoms []string
	for _, c := range all {
		atoms = append(atoms, c.Lines[1])
	}
	_ = atoms
	// re-use the generator with explicit random picks: build via genPuts restricted moves
	var out []Case
	for i := 0; i < n; i++ {
		puts := genPuts(r, length, false, rep)
		out = append(out, codecCase(fmt.Sprintf("len%d-%d", length, i), puts, r))
	}
	return out
}
