package main

import (
	"bytes"
	"io"

	"github.com/klauspost/compress/s2"
)

// reblock decompresses an s2 stream and compresses its content again, ending a block after every few bytes
// (1..97, a fixed pseudo-random sequence derived from the content length). The content is unchanged; only where
// a reader of the stream returns short differs.
func reblock(data []byte) ([]byte, bool) {
	// a snapshot file is two streams back to back (the state, then the recorded log): each keeps its own
	// stream header, so walk the framing (1 byte type, 3 bytes length) up to the second stream identifier
	cut := len(data)
	for pos := 0; pos+4 <= len(data); {
		if data[pos] == 0xff && pos > 0 {
			cut = pos
			break
		}
		pos += 4 + int(data[pos+1]) + int(data[pos+2])<<8 + int(data[pos+3])<<16
	}
	a, ok := reblockOne(data[:cut])
	if !ok {
		return nil, false
	}
	if cut == len(data) {
		return a, true
	}
	b, ok := reblockOne(data[cut:])
	if !ok {
		return nil, false
	}
	return append(a, b...), true
}

func reblockOne(data []byte) ([]byte, bool) {
	plain, err := io.ReadAll(s2.NewReader(bytes.NewReader(data)))
	if err != nil || len(plain) > 4<<20 {
		return nil, false
	}
	var out bytes.Buffer
	w := s2.NewWriter(&out)
	x := uint64(len(plain))*2654435761 + 88172645463325252
	for pos := 0; pos < len(plain); {
		x ^= x << 13
		x ^= x >> 7
		x ^= x << 17
		n := 1 + int(x%97)
		if len(plain) > 1<<16 {
			n += int(x>>32) % 4096 // larger streams: fewer, still irregular blocks
		}
		if pos+n > len(plain) {
			n = len(plain) - pos
		}
		if _, err := w.Write(plain[pos : pos+n]); err != nil {
			return nil, false
		}
		if err := w.Flush(); err != nil {
			return nil, false
		}
		pos += n
	}
	if err := w.Close(); err != nil {
		return nil, false
	}
	return out.Bytes(), true
}
