package main

import (
	"bytes"
	"encoding/binary"
	"encoding/hex"
	"fmt"
	"io"
	"math"
	"math/rand"
	"strconv"
	"strings"

	"github.com/kelindar/column/commit"
)

// ---------------------------------------------------------------------------------------------
// codec mode: the implementation side
// ---------------------------------------------------------------------------------------------

type codecImpl struct {
	buf   *commit.Buffer
	n     int      // number of puts so far (selects the Put* variant)
	kinds []opKind // chunk and kind of every op in the buffer, in buffer order
	logW  *commit.Log
	logB  *bytes.Buffer
}

type opKind struct {
	chunk uint32
	kind  string
	size  int
}

func newCodecImpl() Impl { return &codecImpl{buf: commit.NewBuffer(64)} }

// Close releases the log writer of the case (its compressor runs goroutines and holds megabyte buffers: a hundred
// thousand cases of the thorough tier must not keep theirs)
func (c *codecImpl) Close() {
	if c.logW != nil {
		c.logW.Close()
		c.logW = nil
	}
}

func hexOf(b []byte) string {
	if len(b) == 0 {
		return "-"
	}
	return hex.EncodeToString(b)
}

func unhex(s string) ([]byte, bool) {
	if s == "-" {
		return []byte{}, true
	}
	b, err := hex.DecodeString(s)
	return b, err == nil
}

func readOps(r *commit.Reader) string {
	var parts []string
	for r.Next() {
		parts = append(parts, fmt.Sprintf("%d:%d:%s", uint8(r.Type), r.Index(), hexOf(r.Bytes())))
	}
	return strings.Join(parts, " ")
}

func rangeOps(buf *commit.Buffer, chunk commit.Chunk) string {
	r := commit.NewReader()
	var secs []string
	r.Range(buf, chunk, func(r *commit.Reader) {
		secs = append(secs, readOps(r))
	})
	return strings.Join(secs, " | ")
}

func chunkList(buf *commit.Buffer) string {
	var cs []string
	buf.RangeChunks(func(c commit.Chunk) { cs = append(cs, strconv.Itoa(int(c))) })
	return strings.Join(cs, " ")
}

func errClass(err error) string {
	if err == io.EOF {
		return "err eof"
	}
	return "err bad"
}

func (c *codecImpl) put(t uint8, idx uint32, kind string, val []byte) bool {
	op := commit.OpType(t)
	c.n++
	v := c.n
	switch kind {
	case "f0":
		if len(val) != 0 {
			return false
		}
		if (t == 0 || t == 2) && v%3 == 0 {
			c.buf.PutBool(idx, t == 2)
		} else if v%3 == 1 {
			c.buf.PutAny(op, idx, nil)
		} else {
			c.buf.PutOperation(op, idx)
		}
	case "f2":
		if len(val) != 2 {
			return false
		}
		x := binary.BigEndian.Uint16(val)
		switch v % 3 {
		case 0:
			c.buf.PutUint16(op, idx, x)
		case 1:
			c.buf.PutInt16(op, idx, int16(x))
		default:
			// PutAny picks the width from the Go type: every type that maps to a 2-byte operation
			switch {
			case (v/3)%4 == 1:
				c.buf.PutAny(op, idx, int16(x))
			case (v/3)%4 == 2 && x < 256:
				c.buf.PutAny(op, idx, uint8(x))
			case (v/3)%4 == 3 && (x < 128 || x >= 0xff80):
				c.buf.PutAny(op, idx, int8(int16(x)))
			default:
				c.buf.PutAny(op, idx, x)
			}
		}
	case "f4":
		if len(val) != 4 {
			return false
		}
		x := binary.BigEndian.Uint32(val)
		switch v % 4 {
		case 0:
			c.buf.PutUint32(op, idx, x)
		case 1:
			c.buf.PutInt32(op, idx, int32(x))
		case 2:
			c.buf.PutFloat32(op, idx, math.Float32frombits(x))
		default:
			switch (v / 4) % 3 {
			case 0:
				c.buf.PutAny(op, idx, int32(x))
			case 1:
				c.buf.PutAny(op, idx, x)
			default:
				c.buf.PutAny(op, idx, math.Float32frombits(x))
			}
		}
	case "f8":
		if len(val) != 8 {
			return false
		}
		x := binary.BigEndian.Uint64(val)
		switch v % 7 {
		case 0:
			c.buf.PutUint64(op, idx, x)
		case 1:
			c.buf.PutInt64(op, idx, int64(x))
		case 2:
			c.buf.PutFloat64(op, idx, math.Float64frombits(x))
		case 3:
			c.buf.PutInt(op, idx, int(x))
		case 4:
			c.buf.PutUint(op, idx, uint(x))
		case 5:
			c.buf.PutNumber(op, idx, math.Float64frombits(x))
		default:
			switch (v / 7) % 5 {
			case 0:
				c.buf.PutAny(op, idx, int64(x))
			case 1:
				c.buf.PutAny(op, idx, x)
			case 2:
				c.buf.PutAny(op, idx, math.Float64frombits(x))
			case 3:
				c.buf.PutAny(op, idx, int(x))
			default:
				c.buf.PutAny(op, idx, uint(x))
			}
		}
	case "s":
		if len(val) > 65535 {
			return false
		}
		switch v % 3 {
		case 0:
			c.buf.PutBytes(op, idx, val)
		case 1:
			c.buf.PutString(op, idx, string(val))
		default:
			switch (v / 3) % 3 {
			case 0:
				c.buf.PutAny(op, idx, string(val))
			case 1:
				c.buf.PutAny(op, idx, val)
			default:
				c.buf.PutAny(op, idx, &rec{b: val}) // encoding.BinaryMarshaler
			}
		}
	default:
		return false
	}
	return true
}

func (c *codecImpl) Exec(line string) string {
	w := strings.Fields(line)
	if len(w) == 0 {
		return "bad-op"
	}
	switch {
	case w[0] == "new" && len(w) == 2:
		c.buf = commit.NewBuffer(64)
		c.buf.Reset(w[1])
		c.n = 0
		c.kinds = nil
		return "ok"
	case w[0] == "reset" && len(w) == 2:
		c.buf.Reset(w[1]) // re-use of a written buffer
		c.kinds = nil
		return "ok"
	case w[0] == "swap" && len(w) == 5:
		ch, e1 := strconv.ParseUint(w[1], 10, 32)
		k, e2 := strconv.Atoi(w[2])
		val, ok := unhex(w[4])
		if e1 != nil || e2 != nil || !ok {
			return "bad-op"
		}
		return c.swap(uint32(ch), k, w[3], val)
	case w[0] == "readnum" && len(w) == 2:
		data, ok := unhex(w[1])
		if !ok || len(data) == 0 {
			return "bad-op"
		}
		ri, ru := readerAny(data)
		return fmt.Sprintf("int=%s uint=%s", ri, ru)
	case w[0] == "loadfrom" && len(w) == 2:
		data, ok := unhex(w[1])
		if !ok {
			return "bad-op"
		}
		nb := commit.NewBuffer(8)
		if _, err := nb.ReadFrom(bytes.NewReader(data)); err != nil {
			return errClass(err)
		}
		c.buf = nb
		return "ok"
	case w[0] == "putany" && len(w) == 4:
		// Buffer.PutAny with an integer of the named Go type
		idx, e1 := strconv.ParseUint(w[2], 10, 32)
		if e1 != nil {
			return "bad-op"
		}
		var x any
		if strings.HasPrefix(w[1], "u") {
			u, err := strconv.ParseUint(w[3], 10, 64)
			if err != nil {
				return "bad-op"
			}
			switch w[1] {
			case "u8":
				x = uint8(u)
			case "u16":
				x = uint16(u)
			case "u32":
				x = uint32(u)
			case "u64":
				x = u
			case "uint":
				x = uint(u)
			}
			if x == nil || (w[1] == "u8" && u > 0xff) || (w[1] == "u16" && u > 0xffff) || (w[1] == "u32" && u > 0xffffffff) {
				return "bad-op"
			}
		} else {
			i, err := strconv.ParseInt(w[3], 10, 64)
			if err != nil {
				return "bad-op"
			}
			switch w[1] {
			case "i8":
				x = int8(i)
			case "i16":
				x = int16(i)
			case "i32":
				x = int32(i)
			case "i64":
				x = i
			case "int":
				x = int(i)
			}
			if x == nil || (w[1] == "i8" && int64(int8(i)) != i) || (w[1] == "i16" && int64(int16(i)) != i) || (w[1] == "i32" && int64(int32(i)) != i) {
				return "bad-op"
			}
		}
		if err := c.buf.PutAny(commit.Put, uint32(idx), x); err != nil {
			return "err bad"
		}
		return "ok"
	case w[0] == "swaps" && len(w) == 8:
		// two swaps during ONE Range pass over the chunk: positions k1 < k2
		ch, e1 := strconv.ParseUint(w[1], 10, 32)
		k1, e2 := strconv.Atoi(w[2])
		v1, ok1 := unhex(w[4])
		k2, e3 := strconv.Atoi(w[5])
		v2, ok2 := unhex(w[7])
		if e1 != nil || e2 != nil || e3 != nil || !ok1 || !ok2 || k1 >= k2 {
			return "bad-op"
		}
		return c.swapMany(uint32(ch), []swapReq{{k1, w[3], v1}, {k2, w[6], v2}})
	case w[0] == "log-new" && len(w) == 1:
		c.Close()
		c.logB = &bytes.Buffer{}
		c.logW = commit.Open(c.logB)
		return "ok"
	case w[0] == "log-append" && len(w) == 3:
		ch, e1 := strconv.ParseUint(w[1], 10, 32)
		id, e2 := strconv.ParseUint(w[2], 10, 64)
		if e1 != nil || e2 != nil {
			return "bad-op"
		}
		if c.logW == nil {
			c.logB = &bytes.Buffer{}
			c.logW = commit.Open(c.logB)
		}
		if err := c.logW.Append(commit.Commit{ID: id, Chunk: commit.Chunk(ch), Updates: []*commit.Buffer{c.buf}}); err != nil {
			return "err bad"
		}
		return "ok"
	case w[0] == "log-range" && len(w) == 1:
		var data []byte
		if c.logB != nil {
			data = append(data, c.logB.Bytes()...)
		}
		rd := commit.Open(bytes.NewReader(data))
		var shown []string
		err := rd.Range(func(cm commit.Commit) error {
			var ups []string
			for _, u := range cm.Updates {
				ups = append(ups, fmt.Sprintf("col=%s ops=%s", u.Column, strings.ReplaceAll(rangeOps(u, cm.Chunk), " ", ",")))
			}
			shown = append(shown, fmt.Sprintf("id=%d chunk=%d %s", cm.ID, uint32(cm.Chunk), strings.Join(ups, " ; ")))
			return nil
		})
		return fmt.Sprintf("log n=%d err=%v %s", len(shown), err != nil, strings.Join(shown, " || "))
	case w[0] == "put" && len(w) == 5:
		t, e1 := strconv.ParseUint(w[1], 10, 8)
		idx, e2 := strconv.ParseUint(w[2], 10, 32)
		val, ok := unhex(w[4])
		if e1 != nil || e2 != nil || !ok || t >= 16 {
			return "bad-op"
		}
		if !c.put(uint8(t), uint32(idx), w[3], val) {
			return "bad-op"
		}
		c.kinds = append(c.kinds, opKind{uint32(idx) >> 14, w[3], len(val)})
		return "ok"
	case w[0] == "seek" && len(w) == 1:
		r := commit.NewReader()
		r.Seek(c.buf)
		return strings.TrimRight("ops "+readOps(r), " ")
	case w[0] == "chunks" && len(w) == 1:
		return strings.TrimRight("chunks "+chunkList(c.buf), " ")
	case w[0] == "range" && len(w) == 2:
		ch, err := strconv.ParseUint(w[1], 10, 32)
		if err != nil {
			return "bad-op"
		}
		return strings.TrimRight("ops "+rangeOps(c.buf, commit.Chunk(ch)), " ")
	case w[0] == "writeto" && len(w) == 1:
		var out bytes.Buffer
		if _, err := c.buf.WriteTo(&out); err != nil {
			return "err bad"
		}
		return "wire " + hexOf(out.Bytes())
	case w[0] == "readfrom" && len(w) == 2:
		data, ok := unhex(w[1])
		if !ok {
			return "bad-op"
		}
		src := bytes.NewReader(data)
		b2 := commit.NewBuffer(16)
		if _, err := b2.ReadFrom(src); err != nil {
			return errClass(err)
		}
		r := commit.NewReader()
		r.Seek(b2)
		// what Range shows per chunk of the buffer read back (every part of a chunk, in order)
		var ranges []string
		seen := map[string]bool{}
		for _, cs := range strings.Fields(chunkList(b2)) {
			if seen[cs] {
				continue
			}
			seen[cs] = true
			ch, _ := strconv.ParseUint(cs, 10, 32)
			ranges = append(ranges, cs+":"+strings.ReplaceAll(rangeOps(b2, commit.Chunk(ch)), " ", ","))
		}
		return fmt.Sprintf("buf col=%s chunks=%s ops=%s ranges=%s rest=%d", b2.Column, strings.ReplaceAll(chunkList(b2), " ", ","), strings.ReplaceAll(readOps(r), " ", ","), strings.Join(ranges, ";"), src.Len())
	case w[0] == "commit-writeto" && len(w) == 3:
		ch, e1 := strconv.ParseUint(w[1], 10, 32)
		id, e2 := strconv.ParseUint(w[2], 10, 64)
		if e1 != nil || e2 != nil {
			return "bad-op"
		}
		cm := commit.Commit{ID: id, Chunk: commit.Chunk(ch), Updates: []*commit.Buffer{c.buf}}
		var out bytes.Buffer
		if _, err := cm.WriteTo(&out); err != nil {
			return "err bad"
		}
		return "wire " + hexOf(out.Bytes())
	case w[0] == "commit-readfrom" && len(w) == 2:
		data, ok := unhex(w[1])
		if !ok {
			return "bad-op"
		}
		src := bytes.NewReader(data)
		var cm commit.Commit
		if _, err := cm.ReadFrom(src); err != nil {
			return errClass(err)
		}
		var ups []string
		for _, u := range cm.Updates {
			ups = append(ups, fmt.Sprintf("col=%s ops=%s", u.Column, strings.ReplaceAll(rangeOps(u, cm.Chunk), " ", ",")))
		}
		return fmt.Sprintf("commit id=%d chunk=%d %s rest=%d", cm.ID, uint32(cm.Chunk), strings.Join(ups, " ; "), src.Len())
	case w[0] == "clone-range" && len(w) == 2:
		ch, err := strconv.ParseUint(w[1], 10, 32)
		if err != nil {
			return "bad-op"
		}
		cm := commit.Commit{ID: 7, Chunk: commit.Chunk(ch), Updates: []*commit.Buffer{c.buf}}
		cl := cm.Clone()
		if len(cl.Updates) == 0 {
			return "clone id=7 none"
		}
		return strings.TrimRight(fmt.Sprintf("clone id=%d ops %s", cl.ID, rangeOps(cl.Updates[0], cl.Chunk)), " ")
	}
	return "bad-op"
}

// swap positions a reader on the k-th op of the chunk and calls the Swap* method of the op's width
type swapReq struct {
	k    int
	kind string
	val  []byte
}

func (c *codecImpl) swap(ch uint32, k int, kind string, val []byte) string {
	return c.swapMany(ch, []swapReq{{k, kind, val}})
}

// swapMany performs the requested swaps (ascending positions among the chunk's ops) during one Range pass
func (c *codecImpl) swapMany(ch uint32, reqs []swapReq) string {
	fixed := func(x string) bool { return x == "f2" || x == "f4" || x == "f8" }
	poss := make([]int, len(reqs))
	for qi, q := range reqs {
		// which op is it? (the reader does not expose whether the current op is a string)
		pos := -1
		n := 0
		for i, ok := range c.kinds {
			if ok.chunk == ch {
				if n == q.k {
					pos = i
					break
				}
				n++
			}
		}
		if pos < 0 {
			return "no-op"
		}
		cur := c.kinds[pos]
		switch {
		case fixed(q.kind) && cur.kind == q.kind:
		case q.kind == "s" && cur.kind == "s":
		default:
			return "no-op"
		}
		poss[qi] = pos
	}
	c.n++
	v := c.n
	r := commit.NewReader()
	seen := 0
	done := make([]bool, len(reqs))
	r.Range(c.buf, commit.Chunk(ch), func(r *commit.Reader) {
		for r.Next() {
			for qi, q := range reqs {
				if seen == q.k && !done[qi] {
					done[qi] = true
					doSwap(r, q.kind, q.val, v+qi)
				}
			}
			seen++
		}
	})
	for _, d := range done {
		if !d {
			return "no-op"
		}
	}
	for qi, q := range reqs {
		if q.kind == "s" && c.kinds[poss[qi]].size != len(q.val) {
			// Skip + appended Put at the end of the buffer
			c.kinds = append(c.kinds, opKind{ch, "s", len(q.val)})
		} else {
			c.kinds[poss[qi]].size = len(q.val)
		}
	}
	return "ok"
}

func doSwap(r *commit.Reader, kind string, val []byte, v int) {
	switch kind {
	case "f2":
		x := binary.BigEndian.Uint16(val)
		if v%2 == 0 {
			r.SwapUint16(x)
		} else {
			r.SwapInt16(int16(x))
		}
	case "f4":
		x := binary.BigEndian.Uint32(val)
		switch v % 3 {
		case 0:
			r.SwapUint32(x)
		case 1:
			r.SwapInt32(int32(x))
		default:
			r.SwapFloat32(math.Float32frombits(x))
		}
	case "f8":
		x := binary.BigEndian.Uint64(val)
		switch v % 5 {
		case 0:
			r.SwapUint64(x)
		case 1:
			r.SwapInt64(int64(x))
		case 2:
			r.SwapFloat64(math.Float64frombits(x))
		case 3:
			r.SwapInt(int(x))
		default:
			r.SwapUint(uint(x))
		}
	case "s":
		if v%2 == 0 {
			r.SwapBytes(val)
		} else {
			r.SwapString(string(val))
		}
	}
}

// ---------------------------------------------------------------------------------------------
// generator
// ---------------------------------------------------------------------------------------------

type putSpec struct {
	typ  int
	idx  uint32
	kind string
	val  []byte
}

func (p putSpec) line() string {
	return fmt.Sprintf("put %d %d %s %s", p.typ, p.idx, p.kind, hexOf(p.val))
}

var codecMoves = []string{"same", "+1", "+2", "+127", "+128", "+16383", "+16384", "+2097152", "+268435456", "jump", "-1", "-2", "-16384", "zero", "max", "half"}

func applyMove(cur uint32, mv string, r *rand.Rand) uint32 {
	switch mv {
	case "same":
		return cur
	case "jump":
		return ((cur>>14)+uint32(1+r.Intn(3)))<<14 + uint32(r.Intn(16384))
	case "zero":
		return uint32(r.Intn(3))
	case "max":
		return math.MaxUint32 - uint32(r.Intn(2))
	case "half":
		return 1<<31 - 1 + uint32(r.Intn(3))
	}
	d, _ := strconv.ParseInt(mv, 10, 64)
	return uint32(int64(cur) + d)
}

func deltaClass(last, idx uint32) string {
	d := uint32(int32(idx) - int32(last))
	switch {
	case d == 1:
		return "delta=next"
	case d < 1<<7:
		return "delta=1B"
	case d < 1<<14:
		return "delta=2B"
	case d < 1<<21:
		return "delta=3B"
	case d < 1<<28:
		return "delta=4B"
	}
	return "delta=5B"
}

func randVal(r *rand.Rand, kind string, big bool) []byte {
	n := 0
	switch kind {
	case "f2":
		n = 2
	case "f4":
		n = 4
	case "f8":
		n = 8
	case "s":
		lens := []int{0, 1, 2, 3, 255, 256, 257}
		n = lens[r.Intn(len(lens))]
		if big && r.Intn(4) == 0 {
			n = []int{65535, 65534, 40000, 16384}[r.Intn(4)]
		}
	}
	b := make([]byte, n)
	switch r.Intn(4) {
	case 0: // zeros
	case 1:
		for i := range b {
			b[i] = 0xff
		}
	default:
		r.Read(b)
	}
	return b
}

var codecKinds = []string{"f0", "f2", "f4", "f8", "s"}

func genPuts(r *rand.Rand, n int, big bool, rep *Report) []putSpec {
	var out []putSpec
	cur := uint32(0)
	last := uint32(0)
	for i := 0; i < n; i++ {
		mv := codecMoves[r.Intn(len(codecMoves))]
		if r.Intn(3) == 0 {
			mv = "+1"
		}
		cur = applyMove(cur, mv, r)
		kind := codecKinds[r.Intn(len(codecKinds))]
		typ := r.Intn(5)
		if r.Intn(20) == 0 {
			typ = 5 + r.Intn(11)
		}
		p := putSpec{typ: typ, idx: cur, kind: kind, val: randVal(r, kind, big)}
		out = append(out, p)
		if rep != nil {
			rep.count("move=" + mv)
			rep.count("kind=" + kind)
			rep.count(deltaClass(last, cur))
			rep.count(fmt.Sprintf("typ=%d", typ))
		}
		last = cur
	}
	return out
}

func codecCase(name string, puts []putSpec, r *rand.Rand) Case {
	lines := []string{"new c" + strconv.Itoa(r.Intn(3))}
	chunks := map[uint32]bool{}
	feats := map[string]bool{}
	var lastChunk int64 = -1
	switches := 0
	for _, p := range puts {
		lines = append(lines, p.line())
		ch := p.idx >> 14
		if int64(ch) != lastChunk {
			switches++
		}
		if chunks[ch] && int64(ch) != lastChunk {
			feats["interleaved"] = true
		}
		chunks[ch] = true
		lastChunk = int64(ch)
	}
	if switches > 1 {
		feats["multi-chunk"] = true
	}
	lines = append(lines, "seek", "chunks", "writeto")
	// reader-side rewriting: swaps of every width, same-size and resizing, on random positions
	if len(puts) > 0 && r.Intn(2) == 0 {
		nsw := 1 + r.Intn(3)
		for i := 0; i < nsw; i++ {
			p := puts[r.Intn(len(puts))]
			ch := p.idx >> 14
			k := r.Intn(len(puts))
			kind := p.kind
			if r.Intn(4) == 0 {
				kind = codecKinds[r.Intn(len(codecKinds))]
			}
			val := randVal(r, kind, false)
			lines = append(lines, fmt.Sprintf("swap %d %d %s %s", ch, k%(len(puts)), kind, hexOf(val)), fmt.Sprintf("range %d", ch))
			feats["swap"] = true
			if r.Intn(2) == 0 {
				// two swaps in one pass: a (possibly resizing) string swap early, a same-shape swap later
				k1, k2 := r.Intn(len(puts)), r.Intn(len(puts))
				if k1 > k2 {
					k1, k2 = k2, k1
				}
				if k1 < k2 {
					kd1, kd2 := []string{"s", "s", "f4", "f8", "f2"}[r.Intn(5)], []string{"s", "f2", "f4", "f8"}[r.Intn(4)]
					lines = append(lines, fmt.Sprintf("swaps %d %d %s %s %d %s %s", ch, k1, kd1, hexOf(randVal(r, kd1, false)), k2, kd2, hexOf(randVal(r, kd2, false))), fmt.Sprintf("range %d", ch), "seek")
					feats["swaps-one-pass"] = true
				}
			}
		}
		lines = append(lines, "seek", "writeto")
	}
	// commit log over real s2 framing
	if r.Intn(3) == 0 {
		lines = append(lines, "log-new")
		nl := 1 + r.Intn(3)
		for i := 0; i < nl; i++ {
			var ch uint32
			if len(puts) > 0 {
				ch = puts[r.Intn(len(puts))].idx >> 14
			}
			lines = append(lines, fmt.Sprintf("log-append %d %d", ch, 1+r.Int63n(1<<62)))
			if r.Intn(2) == 0 {
				extra := genPuts(r, 1+r.Intn(3), false, nil)
				for _, e := range extra {
					lines = append(lines, e.line())
				}
			}
		}
		lines = append(lines, "log-range")
		feats["log"] = true
	}
	// re-use of the written buffer
	if r.Intn(4) == 0 {
		lines = append(lines, "reset z")
		for _, e := range genPuts(r, 1+r.Intn(4), false, nil) {
			lines = append(lines, e.line())
		}
		lines = append(lines, "seek", "writeto", "chunks")
		feats["reset-reuse"] = true
	}
	n := 0
	for ch := range chunks {
		lines = append(lines, fmt.Sprintf("range %d", ch), fmt.Sprintf("commit-writeto %d %d", ch, 1+r.Int63n(1<<62)))
		if n < 2 {
			lines = append(lines, fmt.Sprintf("clone-range %d", ch))
		}
		n++
		if n >= 4 {
			break
		}
	}
	lines = append(lines, "range 999999")
	var fs []string
	for f := range feats {
		fs = append(fs, f)
	}
	return Case{Name: name, Lines: lines, Features: fs}
}

// interleavedSwapCases: a chunk stored in several parts of one buffer (chunk c, another chunk, chunk c again …),
// a resizing string swap in an early part (the appended Put re-allocates the buffer) and a same-shape swap in
// a later part, during ONE Range pass; then every reader view of the result
func interleavedSwapCases(r *rand.Rand, n int) []Case {
	var out []Case
	for i := 0; i < n; i++ {
		lines := []string{fmt.Sprintf("new i%d", i)}
		c0, c1 := uint32(r.Intn(3)), uint32(3+r.Intn(3))
		parts := 2 + r.Intn(3)
		k := 0
		var strAt []int // positions (among chunk c0's ops) of string ops, with their lengths
		var strLen []int
		var fixAt []int
		for p := 0; p < parts; p++ {
			m := 1 + r.Intn(3)
			for j := 0; j < m; j++ {
				off := c0<<14 + uint32(r.Intn(200))
				if r.Intn(2) == 0 {
					v := randVal(r, "s", false)
					lines = append(lines, fmt.Sprintf("put 4 %d s %s", off, hexOf(v)))
					strAt, strLen = append(strAt, k), append(strLen, len(v))
				} else {
					lines = append(lines, fmt.Sprintf("put 4 %d f8 %s", off, hexOf(randVal(r, "f8", false))))
					fixAt = append(fixAt, k)
				}
				k++
			}
			lines = append(lines, fmt.Sprintf("put 2 %d f4 %s", c1<<14+uint32(r.Intn(200)), hexOf(randVal(r, "f4", false))))
		}
		if len(strAt) >= 1 && k >= 2 {
			k1 := strAt[0]
			big := make([]byte, 200+r.Intn(3000))
			for j := range big {
				big[j] = byte('A' + j%26)
			}
			// a later op: same-length string or an 8-byte value
			var second string
			for t := len(strAt) - 1; t > 0; t-- {
				if strAt[t] > k1 && r.Intn(2) == 0 {
					second = fmt.Sprintf("%d s %s", strAt[t], hexOf(bytes.Repeat([]byte{'z'}, strLen[t])))
					break
				}
			}
			if second == "" {
				for _, f := range fixAt {
					if f > k1 {
						second = fmt.Sprintf("%d f8 %s", f, hexOf(randVal(r, "f8", false)))
					}
				}
			}
			if second != "" {
				lines = append(lines, fmt.Sprintf("swaps %d %d s %s %s", c0, k1, hexOf(big), second))
			} else {
				lines = append(lines, fmt.Sprintf("swap %d %d s %s", c0, k1, hexOf(big)))
			}
		}
		lines = append(lines, fmt.Sprintf("range %d", c0), fmt.Sprintf("range %d", c1), "seek", "chunks", "writeto")
		out = append(out, Case{Name: fmt.Sprintf("interleaved-swaps-%d", i), Lines: lines, Features: []string{"swap", "swaps-one-pass", "interleaved-parts"}})
	}
	return out
}

// wireCases: serialised buffers / commits produced by the implementation, whole and truncated.
func wireCases(r *rand.Rand, n int, rep *Report) []Case {
	var out []Case
	for i := 0; i < n; i++ {
		puts := genPuts(r, 1+r.Intn(8), false, nil)
		impl := newCodecImpl().(*codecImpl)
		impl.Exec("new w")
		for _, p := range puts {
			impl.Exec(p.line())
		}
		var wb bytes.Buffer
		impl.buf.WriteTo(&wb)
		full := wb.Bytes()
		lines := []string{"new w"}
		lines = append(lines, "readfrom "+hexOf(full))
		extra := append(append([]byte{}, full...), 1, 2, 3)
		lines = append(lines, "readfrom "+hexOf(extra))
		for k := 0; k < 6; k++ {
			cut := r.Intn(len(full))
			lines = append(lines, "readfrom "+hexOf(full[:cut]))
			rep.count("readfrom-truncated")
		}
		// writing goes on after a buffer was read back: the whole buffer, and an empty one (first write in block 0)
		if i%2 == 0 {
			lines = append(lines, "new w")
			for _, p := range puts {
				lines = append(lines, p.line())
			}
			lines = append(lines, "loadfrom "+hexOf(full))
		} else {
			var eb bytes.Buffer
			commit.NewBuffer(8).WriteTo(&eb)
			lines = append(lines, "new w", "loadfrom "+hexOf(eb.Bytes()))
		}
		cur := uint32(r.Intn(3))
		for _, p := range genPuts(r, 1+r.Intn(4), false, nil) {
			p.idx = cur + p.idx%40000
			cur = p.idx
			lines = append(lines, p.line())
		}
		lines = append(lines, "seek", "chunks", "range 0", "range 1", "range 2", "writeto")
		rep.count("write-after-readfrom")
		ch := puts[r.Intn(len(puts))].idx >> 14
		cm := commit.Commit{ID: uint64(1 + r.Int63n(1<<62)), Chunk: commit.Chunk(ch), Updates: []*commit.Buffer{impl.buf, impl.buf}}
		var cb bytes.Buffer
		cm.WriteTo(&cb)
		cfull := cb.Bytes()
		lines = append(lines, "commit-readfrom "+hexOf(cfull))
		for k := 0; k < 6; k++ {
			cut := r.Intn(len(cfull))
			lines = append(lines, "commit-readfrom "+hexOf(cfull[:cut]))
			rep.count("commit-readfrom-truncated")
		}
		out = append(out, Case{Name: fmt.Sprintf("wire-%d", i), Lines: lines, Features: []string{"wire"}})
	}
	return out
}

// readNumCases: the any-size accessors over edge and random values of each width
func readNumCases(r *rand.Rand, n int) []Case {
	var out []Case
	for k := 0; k < n; k++ {
		lines := []string{"new a"}
		for j := 0; j < 10; j++ {
			w := []int{2, 4, 8}[r.Intn(3)]
			b := make([]byte, w)
			r.Read(b)
			switch r.Intn(4) {
			case 0:
				b[0] = []byte{0x7f, 0x80, 0xff, 0x00}[r.Intn(4)]
			case 1:
				for i := range b {
					b[i] = []byte{0x00, 0xff}[r.Intn(2)]
				}
			}
			lines = append(lines, "readnum "+hexOf(b))
		}
		out = append(out, Case{Name: fmt.Sprintf("readnum-%d", k), Lines: lines, Features: []string{"wire", "readnum"}})
	}
	return out
}

// putAnyCases: every Go integer type at its edge values (and random ones) through Buffer.PutAny, then the bytes and
// the decoded operations
func putAnyCases(r *rand.Rand, n int) []Case {
	types := []struct {
		name   string
		bits   uint
		signed bool
	}{{"i8", 8, true}, {"i16", 16, true}, {"i32", 32, true}, {"i64", 64, true}, {"int", 64, true},
		{"u8", 8, false}, {"u16", 16, false}, {"u32", 32, false}, {"u64", 64, false}, {"uint", 64, false}}
	var out []Case
	for k := 0; k < n; k++ {
		lines := []string{"new a"}
		idx := uint32(r.Intn(5))
		for j := 0; j < 12; j++ {
			t := types[(k+j)%len(types)]
			var dec string
			if t.signed {
				lo, hi := -(int64(1) << (t.bits - 1)), int64(1)<<(t.bits-1)-1
				v := []int64{lo, hi, -1, 0, 1, lo + 1, hi - 1, -128, 127, -129, 128}[r.Intn(11)]
				if r.Intn(2) == 0 {
					v = r.Int63() >> (64 - t.bits)
					if r.Intn(2) == 0 {
						v = -v - 1
					}
				}
				if v < lo || v > hi {
					v = lo
				}
				dec = strconv.FormatInt(v, 10)
			} else {
				hi := ^uint64(0) >> (64 - t.bits)
				v := []uint64{0, 1, hi, hi - 1, 255, 256, 65535, 65536}[r.Intn(8)]
				if r.Intn(2) == 0 {
					v = r.Uint64() >> (64 - t.bits)
				}
				if v > hi {
					v = hi
				}
				dec = strconv.FormatUint(v, 10)
			}
			idx += uint32(r.Intn(3))
			lines = append(lines, fmt.Sprintf("putany %s %d %s", t.name, idx, dec))
		}
		lines = append(lines, "writeto", "seek", "chunks")
		out = append(out, Case{Name: fmt.Sprintf("putany-%d", k), Lines: lines, Features: []string{"wire", "putany"}})
	}
	return out
}

// exhaustive short sequences over a reduced alphabet
func exhaustiveCodec(length int, rep *Report) []Case {
	type atom struct {
		typ  int
		kind string
		val  []byte
		mv   string
	}
	var atoms []atom
	vals := map[string][]byte{"f0": {}, "f2": {0x80, 0x01}, "f8": {1, 2, 3, 4, 5, 6, 7, 0xff}, "s": {0x61}}
	for _, mv := range []string{"same", "+1", "+2", "+128", "+16384", "-1", "-16384", "+2097152"} {
		for _, k := range []string{"f0", "f2", "f8", "s"} {
			for _, t := range []int{0, 2, 3} {
				if (mv == "+2097152" || mv == "-16384") && (k == "f2" || t == 0) {
					continue
				}
				atoms = append(atoms, atom{t, k, vals[k], mv})
			}
		}
	}
	var out []Case
	idx := make([]int, length)
	r := rand.New(rand.NewSource(1))
	for {
		cur := uint32(16384 + 100)
		var puts []putSpec
		for _, ai := range idx {
			a := atoms[ai]
			cur = applyMove(cur, a.mv, r)
			puts = append(puts, putSpec{a.typ, cur, a.kind, a.val})
		}
		lines := []string{"new e"}
		for _, p := range puts {
			lines = append(lines, p.line())
		}
		lines = append(lines, "seek", "writeto", "range 0", "range 1", "commit-writeto 1 9")
		out = append(out, Case{Name: "exh", Lines: lines, Features: []string{"exhaustive"}})
		k := length - 1
		for k >= 0 {
			idx[k]++
			if idx[k] < len(atoms) {
				break
			}
			idx[k] = 0
			k--
		}
		if k < 0 {
			break
		}
	}
	rep.countN(fmt.Sprintf("exhaustive-len%d", length), len(out))
	return out
}

// ---------------------------------------------------------------------------------------------
// implementation-only oracle: decode(encode(ops)) = ops, range = filter
// ---------------------------------------------------------------------------------------------

func codecOracle(c Case, out []string) string {
	var puts []string
	for i, l := range c.Lines {
		w := strings.Fields(l)
		if len(w) == 0 {
			continue
		}
		switch w[0] {
		case "new", "reset":
			puts = nil
		case "swap", "swaps":
			if out[i] != "ok" {
				break
			}
			// the op the reader was positioned on becomes a put of the new value (in place), or is
			// marked Skip with the put appended at the end (byte strings of another length);
			// `swaps` = two of them during one pass (positions do not move)
			reqs := [][3]string{{w[2], w[3], w[4]}}
			if w[0] == "swaps" {
				reqs = append(reqs, [3]string{w[5], w[6], w[7]})
			}
			for _, q := range reqs {
				n := 0
				for j, p := range puts {
					f := strings.Split(p, ":")
					idx, _ := strconv.ParseUint(f[1], 10, 32)
					if strconv.FormatUint(idx>>14, 10) != w[1] {
						continue
					}
					if strconv.Itoa(n) == q[0] {
						oldLen := len(f[2]) / 2
						if f[2] == "-" {
							oldLen = 0
						}
						newLen := len(q[2]) / 2
						if q[2] == "-" {
							newLen = 0
						}
						if q[1] == "s" && oldLen != newLen {
							puts[j] = fmt.Sprintf("4:%s:%s", f[1], f[2])
							puts = append(puts, fmt.Sprintf("2:%s:%s", f[1], q[2]))
						} else {
							puts[j] = fmt.Sprintf("2:%s:%s", f[1], q[2])
						}
						break
					}
					n++
				}
			}
		case "put":
			if out[i] == "ok" {
				puts = append(puts, fmt.Sprintf("%s:%s:%s", w[1], w[2], w[4]))
			}
		case "readnum":
			// two's complement / plain reading of 2, 4 or 8 big-endian bytes
			if data, ok := unhex(w[1]); ok && (len(data) == 2 || len(data) == 4 || len(data) == 8) {
				u := beU(data)
				sh := uint(64 - 8*len(data))
				want := fmt.Sprintf("int=%d uint=%d", int64(u<<sh)>>sh, u)
				if out[i] != want {
					return fmt.Sprintf("line %d: the any-size readers give %s for the value %s, its number is %s", i, out[i], w[1], want)
				}
			}
		case "loadfrom":
			// the scripts load what the current buffer serialises to (or an empty buffer after `new`): same ops
		case "putany":
			// the two's-complement bytes of the value at the width PutAny gives the type (8-bit types: 16 bits)
			if out[i] == "ok" && len(w) == 4 {
				width := map[string]int{"i8": 2, "u8": 2, "i16": 2, "u16": 2, "i32": 4, "u32": 4}[w[1]]
				if width == 0 {
					width = 8
				}
				var u uint64
				if strings.HasPrefix(w[1], "u") {
					u, _ = strconv.ParseUint(w[3], 10, 64)
				} else {
					v, _ := strconv.ParseInt(w[3], 10, 64)
					u = uint64(v)
				}
				puts = append(puts, fmt.Sprintf("2:%s:%s", w[2], hexOf(be(u, width))))
			}
		case "seek":
			want := strings.TrimRight("ops "+strings.Join(puts, " "), " ")
			if out[i] != want {
				return fmt.Sprintf("line %d: seek does not return the written sequence (want %s, got %s)", i, clip(want, 200), clip(out[i], 200))
			}
		case "range":
			var sel []string
			for _, p := range puts {
				f := strings.Split(p, ":")
				idx, _ := strconv.ParseUint(f[1], 10, 32)
				if strconv.FormatUint(idx>>14, 10) == w[1] {
					sel = append(sel, p)
				}
			}
			got := strings.ReplaceAll(strings.TrimPrefix(strings.TrimPrefix(out[i], "ops"), " "), " | ", " ")
			if got != strings.Join(sel, " ") {
				return fmt.Sprintf("line %d: range %s is not the chunk's ops in write order (want %s, got %s)", i, w[1], clip(strings.Join(sel, " "), 200), clip(got, 200))
			}
		case "clone-range":
			if strings.Contains(out[i], "id=0") {
				return fmt.Sprintf("line %d: clone lost the commit id", i)
			}
		}
		if strings.HasPrefix(out[i], "panic") {
			return fmt.Sprintf("line %d: %s on a buffer written through the API", i, out[i])
		}
	}
	return ""
}
