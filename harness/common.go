package main

import (
	"bufio"
	"bytes"
	"crypto/sha1"
	"encoding/hex"
	"encoding/json"
	"fmt"
	"math/rand"
	"os"
	"os/exec"
	"path/filepath"
	"sort"
	"strings"
	"time"
)

// Case is one script: a list of protocol lines. The first line resets the state on both sides.
type Case struct {
	Name     string
	Lines    []string
	Features []string // what makes it non-trivial (measured by the generator)
	Keep     int      // leading lines the shrinker must keep (schema set-up)
}

// Impl executes protocol lines against the real implementation.
type Impl interface {
	Exec(line string) string
	Close()
}

// Oracle evaluates the property on the implementation's own outputs (no model involved).
// It returns a description of the failed clause, or "".
type Oracle func(c Case, goOut []string) string

// Violation describes one failing input.
type Violation struct {
	Property string   `json:"property"`
	Kind     string   `json:"kind"` // "oracle" (property fails on the implementation) | "correspondence" (model and implementation differ)
	Clause   string   `json:"clause"`
	Script   []string `json:"script"`
	GoOut    []string `json:"go_out"`
	LeanOut  []string `json:"lean_out,omitempty"`
	Known    string   `json:"known,omitempty"`
	Replay   string   `json:"replay,omitempty"`
}

// Report is what a harness run hands back to ./check.
type Report struct {
	Mode               string         `json:"mode"`
	Property           string         `json:"property"`
	Seed               int64          `json:"seed"`
	Tier               string         `json:"tier"`
	Cases              int            `json:"cases"`
	Lines              int            `json:"lines"`
	DistinctNontrivial int            `json:"distinct_nontrivial"`
	Rule               string         `json:"rule"`
	Samples            []interface{}  `json:"samples"`
	Dist               map[string]int `json:"distribution"`
	Violations         []Violation    `json:"violations"`
	KnownFindings      []string       `json:"known_findings"`
	Notes              []string       `json:"notes"`
	Exhaustive         bool           `json:"exhaustive"`
	SchedulesRun       int            `json:"schedules_run,omitempty"`
	WallS              float64        `json:"wall_s"`
}

func newReport(mode, prop string, seed int64, tier string) *Report {
	return &Report{Mode: mode, Property: prop, Seed: seed, Tier: tier, Dist: map[string]int{}}
}

func (r *Report) count(key string)         { r.Dist[key]++ }
func (r *Report) countN(key string, n int) { r.Dist[key] += n }

var driverPath = "/verif/lean/.lake/build/bin/driver"

// runLean pipes the lines of all cases to the Lean driver and returns its output lines per case.
func runLean(mode string, cases []Case) ([][]string, error) {
	var in bytes.Buffer
	total := 0
	for _, c := range cases {
		for _, l := range c.Lines {
			in.WriteString(l)
			in.WriteByte('\n')
			total++
		}
	}
	cmd := exec.Command(driverPath, mode)
	cmd.Stdin = &in
	var out, errb bytes.Buffer
	cmd.Stdout = &out
	cmd.Stderr = &errb
	if err := cmd.Run(); err != nil {
		return nil, fmt.Errorf("lean driver failed: %v: %s", err, errb.String())
	}
	sc := bufio.NewScanner(&out)
	sc.Buffer(make([]byte, 1<<20), 1<<30)
	var all []string
	for sc.Scan() {
		all = append(all, sc.Text())
	}
	if len(all) != total {
		return nil, fmt.Errorf("lean driver returned %d lines for %d ops (stderr: %s)", len(all), total, errb.String())
	}
	res := make([][]string, len(cases))
	k := 0
	for i, c := range cases {
		res[i] = all[k : k+len(c.Lines)]
		k += len(c.Lines)
	}
	return res, nil
}

// runGo executes a case against a fresh implementation, recovering panics per line.
func runGo(mk func() Impl, c Case) []string {
	impl := mk()
	defer impl.Close()
	out := make([]string, len(c.Lines))
	for i, l := range c.Lines {
		out[i] = safeExec(impl, l)
	}
	return out
}

func safeExec(impl Impl, line string) (out string) {
	defer func() {
		if r := recover(); r != nil {
			out = "panic:" + panicClass(fmt.Sprint(r))
		}
	}()
	return impl.Exec(line)
}

func panicClass(msg string) string {
	switch {
	case strings.Contains(msg, "index out of range"):
		return "index"
	case strings.Contains(msg, "slice bounds out of range"):
		return "slice"
	case strings.Contains(msg, "nil pointer"):
		return "nil"
	case strings.Contains(msg, "does not exist"):
		return "nocolumn"
	case strings.Contains(msg, "is not of"):
		return "wrongtype"
	case strings.Contains(msg, "unsupported"):
		return "unsupported"
	}
	return "other"
}

func firstDiff(a, b []string) int {
	for i := range a {
		if i >= len(b) || a[i] != b[i] {
			return i
		}
	}
	if len(b) > len(a) {
		return len(a)
	}
	return -1
}

// differential runs all cases on both sides; returns per-case go outputs and indices of disagreeing cases.
func differential(mode string, mk func() Impl, cases []Case) (goOuts [][]string, leanOuts [][]string, bad []int, err error) {
	goOuts = make([][]string, len(cases))
	t0 := time.Now()
	for i, c := range cases {
		goOuts[i] = runGo(mk, c)
	}
	t1 := time.Now()
	leanOuts, err = runLean(mode, cases)
	if os.Getenv("VERIF_DEBUG") != "" {
		fmt.Fprintf(os.Stderr, "DEBUG go %v lean %v\n", t1.Sub(t0), time.Since(t1))
	}
	if err != nil {
		return
	}
	for i := range cases {
		if firstDiff(goOuts[i], leanOuts[i]) >= 0 {
			bad = append(bad, i)
		}
	}
	return
}

// shrink: delta-debugging over lines (the first `keep` lines are never removed).
// protectedLine: schema / set-up lines are never removed by the shrinker (removing a column on
// one collection only would change the meaning of every later line)
func protectedLine(l string) bool {
	f := strings.Fields(l)
	if len(f) == 0 {
		return false
	}
	switch f[0] {
	case "reset", "hash", "new":
		return true
	}
	if len(f) > 1 {
		switch f[1] {
		case "col", "index", "sortindex", "trigger", "dropcol", "dropindex", "droptrigger", "sparse":
			return true
		}
	}
	return false
}

func shrink(c Case, keep int, fails func(Case) bool) Case {
	if c.Keep > 0 {
		return shrinkProtected(c, fails)
	}
	return shrinkPlain(c, keep, fails)
}

// shrinkProtected: ddmin over the removable lines only
func shrinkProtected(c Case, fails func(Case) bool) Case {
	var removable []int
	for i, l := range c.Lines {
		if !protectedLine(l) {
			removable = append(removable, i)
		}
	}
	build := func(keepIdx map[int]bool) []string {
		var out []string
		for i, l := range c.Lines {
			if protectedLine(l) || keepIdx[i] {
				out = append(out, l)
			}
		}
		return out
	}
	cur := append([]int(nil), removable...)
	n := 2
	budget := 300
	for len(cur) >= 1 && budget > 0 {
		chunk := (len(cur) + n - 1) / n
		reduced := false
		for start := 0; start < len(cur) && budget > 0; start += chunk {
			end := start + chunk
			if end > len(cur) {
				end = len(cur)
			}
			keepIdx := map[int]bool{}
			for j, idx := range cur {
				if j < start || j >= end {
					keepIdx[idx] = true
				}
			}
			budget--
			if fails(Case{Name: c.Name, Lines: build(keepIdx), Keep: c.Keep}) {
				var next []int
				for j, idx := range cur {
					if j < start || j >= end {
						next = append(next, idx)
					}
				}
				cur = next
				if n > 2 {
					n--
				}
				reduced = true
				break
			}
		}
		if !reduced {
			if chunk <= 1 {
				break
			}
			n *= 2
			if n > len(cur) {
				n = len(cur)
			}
		}
	}
	keepIdx := map[int]bool{}
	for _, idx := range cur {
		keepIdx[idx] = true
	}
	return Case{Name: c.Name, Lines: build(keepIdx), Features: c.Features, Keep: c.Keep}
}

func shrinkPlain(c Case, keep int, fails func(Case) bool) Case {
	lines := append([]string(nil), c.Lines...)
	n := 2
	budget := 400
	for len(lines)-keep >= 1 && budget > 0 {
		body := lines[keep:]
		chunk := (len(body) + n - 1) / n
		reduced := false
		for start := 0; start < len(body) && budget > 0; start += chunk {
			end := start + chunk
			if end > len(body) {
				end = len(body)
			}
			cand := append([]string(nil), lines[:keep]...)
			cand = append(cand, body[:start]...)
			cand = append(cand, body[end:]...)
			budget--
			if fails(Case{Name: c.Name, Lines: cand, Keep: c.Keep}) {
				lines = cand
				if n > 2 {
					n--
				}
				reduced = true
				break
			}
		}
		if !reduced {
			if chunk <= 1 {
				break
			}
			n *= 2
			if n > len(body) {
				n = len(body)
			}
		}
	}
	return Case{Name: c.Name, Lines: lines, Features: c.Features, Keep: c.Keep}
}

func hashLines(lines []string) string {
	h := sha1.New()
	for _, l := range lines {
		h.Write([]byte(l))
		h.Write([]byte{'\n'})
	}
	return hex.EncodeToString(h.Sum(nil))[:12]
}

// writeReplay stores a replay file and returns its path (relative to /verif).
func writeReplay(prop, mode string, v *Violation) string {
	dir := filepath.Join(verifDir(), "replays")
	os.MkdirAll(dir, 0o755)
	name := fmt.Sprintf("%s-%s-%s.replay", prop, mode, hashLines(v.Script))
	path := filepath.Join(dir, name)
	var b strings.Builder
	fmt.Fprintf(&b, "# property=%s mode=%s kind=%s\n", prop, mode, v.Kind)
	fmt.Fprintf(&b, "# clause: %s\n", v.Clause)
	fmt.Fprintf(&b, "# re-run: ./check %s --replay replays/%s\n", prop, name)
	for i, l := range v.Script {
		fmt.Fprintf(&b, "%s\n", l)
		if i < len(v.GoOut) {
			fmt.Fprintf(&b, "#   impl : %s\n", clip(v.GoOut[i], 400))
		}
		if i < len(v.LeanOut) {
			fmt.Fprintf(&b, "#   model: %s\n", clip(v.LeanOut[i], 400))
		}
	}
	os.WriteFile(path, []byte(b.String()), 0o644)
	v.Replay = "replays/" + name
	return v.Replay
}

func clip(s string, n int) string {
	if len(s) > n {
		return s[:n] + fmt.Sprintf("…(+%d)", len(s)-n)
	}
	return s
}

func verifDir() string {
	if d := os.Getenv("VERIF_DIR"); d != "" {
		return d
	}
	return "/verif"
}

// readReplay loads the protocol lines of a replay/corpus file (comment lines skipped).
func readReplay(path string) ([]string, error) {
	data, err := os.ReadFile(path)
	if err != nil {
		return nil, err
	}
	var lines []string
	for _, l := range strings.Split(string(data), "\n") {
		t := strings.TrimSpace(l)
		if t == "" || strings.HasPrefix(t, "#") {
			continue
		}
		lines = append(lines, t)
	}
	return lines, nil
}

// corpus returns the cases stored under corpus/<mode>/ (sorted by name).
func corpus(mode string) []Case {
	dir := filepath.Join(verifDir(), "corpus", mode)
	ents, _ := os.ReadDir(dir)
	var names []string
	for _, e := range ents {
		if strings.HasSuffix(e.Name(), ".ops") {
			names = append(names, e.Name())
		}
	}
	sort.Strings(names)
	var out []Case
	for _, n := range names {
		lines, err := readReplay(filepath.Join(dir, n))
		if err == nil && len(lines) > 0 {
			out = append(out, Case{Name: "corpus/" + n, Lines: lines, Features: []string{"corpus"}})
		}
	}
	return out
}

func (r *Report) finish(start time.Time, out string) {
	r.WallS = time.Since(start).Seconds()
	if r.Violations == nil {
		r.Violations = []Violation{}
	}
	if r.KnownFindings == nil {
		r.KnownFindings = []string{}
	}
	if r.Notes == nil {
		r.Notes = []string{}
	}
	if r.Samples == nil {
		r.Samples = []interface{}{}
	}
	data, _ := json.MarshalIndent(r, "", " ")
	if out == "" || out == "-" {
		os.Stdout.Write(data)
		os.Stdout.Write([]byte{'\n'})
	} else {
		os.WriteFile(out, data, 0o644)
	}
}

func pick(r *rand.Rand, xs []string) string { return xs[r.Intn(len(xs))] }

// distinct counts distinct scripts by hash among those flagged non-trivial.
type distinctCounter struct{ seen map[string]bool }

func (d *distinctCounter) add(lines []string) {
	if d.seen == nil {
		d.seen = map[string]bool{}
	}
	d.seen[hashLines(lines)] = true
}
func (d *distinctCounter) n() int { return len(d.seen) }
