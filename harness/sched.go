package main

import (
	"bytes"
	"fmt"
	"runtime"
	"sort"
	"strconv"
	"strings"
	"sync"
	"time"

	"github.com/kelindar/column"
)

// ---------------------------------------------------------------------------------------------
// Controlled scheduler. Worker goroutines park at the verifYield points compiled into /repo with
// the `verif` tag; a controller resumes exactly one parked worker at a time, following a schedule
// (a list of choices). A resumed worker that does not reach its next yield point within a short
// time is treated as blocked on a lock (it keeps running in the background and parks later).
// ---------------------------------------------------------------------------------------------

type sevent struct {
	tid   int
	kind  string // park | done
	point string
}

type sthread struct {
	tid    int
	name   string
	resume chan struct{}
	state  string // new, parked, running, blocked, done
	point  string
}

type scheduler struct {
	mu       sync.Mutex
	byGoid   map[uint64]*sthread
	threads  []*sthread
	ctl      chan sevent
	trace    []string // "T<tid>@<point>" in the order the controller resumed from them
	choices  []int    // schedule prefix; afterwards `fallback`
	fallback func(n int) int
	policy   func(s *scheduler, enabled []*sthread) int // used after the choice prefix, before fallback
	lastTid  int                                        // thread resumed by the previous decision (-1 at the start)
	branch   []int                                      // branching factor seen at each decision (for systematic enumeration)
	taken    []int
	blockTO  time.Duration
	deadlock bool
}

func curGoid() uint64 {
	var buf [64]byte
	n := runtime.Stack(buf[:], false)
	f := strings.Fields(string(buf[:n]))
	if len(f) < 2 {
		return 0
	}
	id, _ := strconv.ParseUint(f[1], 10, 64)
	return id
}

func newScheduler(choices []int, fallback func(int) int) *scheduler {
	return &scheduler{byGoid: map[uint64]*sthread{}, ctl: make(chan sevent, 256), choices: choices, fallback: fallback, blockTO: 8 * time.Millisecond, lastTid: -1}
}

func (s *scheduler) yield(point string) {
	s.mu.Lock()
	th := s.byGoid[curGoid()]
	s.mu.Unlock()
	if th == nil {
		return // not a controlled goroutine
	}
	s.ctl <- sevent{th.tid, "park", point}
	<-th.resume
}

// spawn starts a controlled worker; it parks immediately at "start"
func (s *scheduler) spawn(name string, body func()) {
	th := &sthread{tid: len(s.threads), name: name, resume: make(chan struct{}, 1), state: "new"}
	s.threads = append(s.threads, th)
	started := make(chan struct{})
	go func() {
		s.mu.Lock()
		s.byGoid[curGoid()] = th
		s.mu.Unlock()
		close(started)
		s.ctl <- sevent{th.tid, "park", "start"}
		<-th.resume
		defer func() {
			if r := recover(); r != nil {
				s.ctl <- sevent{th.tid, "done", "panic:" + fmt.Sprint(r)}
				return
			}
			s.ctl <- sevent{th.tid, "done", ""}
		}()
		body()
	}()
	<-started
}

func (s *scheduler) apply(ev sevent) {
	th := s.threads[ev.tid]
	switch ev.kind {
	case "park":
		th.state, th.point = "parked", ev.point
	case "done":
		th.state, th.point = "done", ev.point
	}
}

// run drives all spawned workers to completion; returns false on deadlock (no progress)
func (s *scheduler) run() bool {
	// collect the initial "start" parks
	for i := 0; i < len(s.threads); i++ {
		s.apply(<-s.ctl)
	}
	for {
		var enabled []*sthread
		running := 0
		alive := 0
		for _, th := range s.threads {
			switch th.state {
			case "parked":
				enabled = append(enabled, th)
				alive++
			case "running", "blocked":
				running++
				alive++
			}
		}
		if alive == 0 {
			return true
		}
		if len(enabled) == 0 {
			// only blocked/running threads: wait for them
			select {
			case ev := <-s.ctl:
				s.apply(ev)
				continue
			case <-time.After(10 * time.Second):
				s.deadlock = true
				return false
			}
		}
		n := len(enabled)
		k := 0
		d := len(s.taken)
		if d < len(s.choices) {
			k = s.choices[d] % n
		} else if s.policy != nil {
			k = s.policy(s, enabled) % n
		} else if s.fallback != nil {
			k = s.fallback(n) % n
		}
		s.taken = append(s.taken, k)
		s.branch = append(s.branch, n)
		th := enabled[k]
		s.lastTid = th.tid
		s.trace = append(s.trace, fmt.Sprintf("T%d@%s", th.tid, th.point))
		th.state = "running"
		th.resume <- struct{}{}
		// wait for an event of any thread, or classify the resumed thread as blocked
		select {
		case ev := <-s.ctl:
			s.apply(ev)
		case <-time.After(s.blockTO):
			if th.state == "running" {
				th.state = "blocked"
			}
		}
		// drain
		for drained := false; !drained; {
			select {
			case ev := <-s.ctl:
				s.apply(ev)
			default:
				drained = true
			}
		}
		// give the resumed thread a little more time if it is the only one that can move
		if th.state == "blocked" {
			others := 0
			for _, o := range s.threads {
				if o.state == "parked" {
					others++
				}
			}
			if others == 0 {
				select {
				case ev := <-s.ctl:
					s.apply(ev)
				case <-time.After(10 * time.Second):
					s.deadlock = true
					return false
				}
			}
		}
	}
}

// ---------------------------------------------------------------------------------------------
// exploration: systematic (depth-first over the choice tree) up to a budget, then random
// ---------------------------------------------------------------------------------------------

type schedOutcome struct {
	choices []int
	branch  []int
	trace   []string
	fail    string
	class   string
	known   string
}

// nextSchedule computes the next choice vector in depth-first order (nil when exhausted)
func nextSchedule(taken, branch []int) []int {
	for i := len(taken) - 1; i >= 0; i-- {
		if taken[i]+1 < branch[i] {
			next := append([]int(nil), taken[:i]...)
			return append(next, taken[i]+1)
		}
	}
	return nil
}

type scenario struct {
	name  string
	build func(s *scheduler) (check func(s *scheduler) (class, fail, known string), cleanup func())
}

var schedMu sync.Mutex // one controlled execution at a time (the yield hook is global)

func runSchedule(sc scenario, choices []int, fallback func(int) int) schedOutcome {
	return runSchedulePol(sc, choices, fallback, nil)
}

// preemptPolicy: run the current thread as long as it is enabled (no preemption), otherwise the first
// enabled thread in the priority order `prio`; at decision `at` switch to thread `to` if it is enabled
// (one forced preemption; at < 0: none)
func preemptPolicy(prio []int, at, to int) func(*scheduler, []*sthread) int {
	return func(s *scheduler, enabled []*sthread) int {
		d := len(s.taken)
		if d == at {
			for i, th := range enabled {
				if th.tid == to {
					return i
				}
			}
		}
		for i, th := range enabled {
			if th.tid == s.lastTid {
				return i
			}
		}
		for _, want := range prio {
			for i, th := range enabled {
				if th.tid == want {
					return i
				}
			}
		}
		return 0
	}
}

func runSchedulePol(sc scenario, choices []int, fallback func(int) int, policy func(*scheduler, []*sthread) int) schedOutcome {
	schedMu.Lock()
	defer schedMu.Unlock()
	s := newScheduler(choices, fallback)
	s.policy = policy
	column.VerifSetYield(s.yield)
	check, cleanup := sc.build(s)
	ok := s.run()
	column.VerifSetYield(nil)
	out := schedOutcome{choices: s.taken, branch: s.branch, trace: s.trace}
	if !ok {
		out.class, out.fail = "deadlock", "the schedule does not terminate (a step never completes): "+strings.Join(s.trace, " ")
		var buf bytes.Buffer
		b := make([]byte, 1<<16)
		n := runtime.Stack(b, true)
		buf.Write(b[:n])
		out.fail += "\n" + clip(buf.String(), 4000)
		return out
	}
	for _, th := range s.threads {
		if strings.HasPrefix(th.point, "panic:") {
			out.class, out.fail = "panic", fmt.Sprintf("thread %s panicked: %s", th.name, th.point)
			cleanup()
			return out
		}
	}
	out.class, out.fail, out.known = check(s)
	cleanup()
	return out
}

// explore runs a scenario under up to `systematic` depth-first schedules and `random` random ones
func explore(rep *Report, sc scenario, systematic, random int, rnd func(int) int, classes map[string]bool) {
	seen := map[string]bool{}
	record := func(o schedOutcome) {
		rep.SchedulesRun++
		key := strings.Join(o.trace, " ")
		if !seen[key] {
			seen[key] = true
			rep.DistinctNontrivial++
		}
		rep.count("sched:" + sc.name)
		if o.known != "" {
			rep.count("known-finding-schedules:" + o.known)
			if knownFor(rep.Property, o.known) {
				return // a listed finding, not a new violation
			}
		}
		mine := false
		for _, cl := range strings.Split(o.class, ",") {
			if classes[cl] {
				mine = true
			}
		}
		if o.fail != "" && (mine || o.class == "deadlock" || o.class == "panic") {
			if len(rep.Violations) < 5 {
				v := Violation{Property: rep.Property, Kind: "oracle", Clause: fmt.Sprintf("[%s] %s", sc.name, o.fail),
					Script: []string{"scenario " + sc.name, "choices " + intsToString(o.choices), "trace " + strings.Join(o.trace, " ")}}
				writeReplay(rep.Property, "sched", &v)
				rep.Violations = append(rep.Violations, v)
			}
		}
		if len(rep.Samples) < 3 {
			rep.Samples = append(rep.Samples, map[string]interface{}{"scenario": sc.name, "choices": intsToString(o.choices), "trace": clip(strings.Join(o.trace, " "), 300)})
		}
	}
	var choices []int
	exhausted := false
	// phase 0: preemption-bounded schedules — every priority rotation without preemption, then one forced
	// switch at every decision to every thread (most protocol bugs need one or two preemptions)
	first := runSchedulePol(sc, nil, nil, preemptPolicy(nil, -1, 0))
	record(first)
	nThreads := 0
	for _, t := range first.trace {
		var tid int
		fmt.Sscanf(t, "T%d@", &tid)
		if tid+1 > nThreads {
			nThreads = tid + 1
		}
	}
	depth := len(first.choices) + 2
	budget0 := systematic
	type pp struct{ rot, at, to int }
	var plans []pp
	for rot := 0; rot < nThreads; rot++ {
		plans = append(plans, pp{rot, -1, 0})
	}
	for at := 0; at < depth; at++ {
		for to := 0; to < nThreads; to++ {
			for rot := 0; rot < nThreads; rot++ {
				plans = append(plans, pp{rot, at, to})
			}
		}
	}
	if len(plans) > budget0 {
		// keep all rotation-0 plans first, then sample the rest deterministically from the seed
		var keep, rest []pp
		for _, p := range plans {
			if p.rot == 0 || p.at < 0 {
				keep = append(keep, p)
			} else {
				rest = append(rest, p)
			}
		}
		for len(keep) < budget0 && len(rest) > 0 {
			i := rnd(len(rest))
			keep = append(keep, rest[i])
			rest = append(rest[:i], rest[i+1:]...)
		}
		if len(keep) > budget0 {
			keep = keep[:budget0]
		}
		plans = keep
	}
	for _, p := range plans {
		prio := make([]int, nThreads)
		for i := range prio {
			prio[i] = (i + p.rot) % nThreads
		}
		record(runSchedulePol(sc, nil, nil, preemptPolicy(prio, p.at, p.to)))
	}
	rep.count("preemption-bounded:" + sc.name)
	for i := 0; i < systematic; i++ {
		o := runSchedule(sc, choices, nil)
		record(o)
		choices = nextSchedule(o.choices, o.branch)
		if choices == nil {
			exhausted = true
			rep.count("exhaustive:" + sc.name)
			break
		}
	}
	if !exhausted {
		for i := 0; i < random; i++ {
			record(runSchedule(sc, nil, rnd))
		}
	}
	rep.Cases = rep.SchedulesRun
}

func knownFor(prop, id string) bool {
	for _, e := range loadKnown().Known {
		if e.ID == id && containsStr(e.Properties, prop) {
			return true
		}
	}
	return false
}

func intsToString(xs []int) string {
	var s []string
	for _, x := range xs {
		s = append(s, strconv.Itoa(x))
	}
	return strings.Join(s, ",")
}

func parseInts(s string) []int {
	var out []int
	for _, f := range strings.Split(strings.TrimSpace(s), ",") {
		if v, err := strconv.Atoi(f); err == nil {
			out = append(out, v)
		}
	}
	return out
}

func sortedKeys(m map[string]int) []string {
	var ks []string
	for k := range m {
		ks = append(ks, k)
	}
	sort.Strings(ks)
	return ks
}
