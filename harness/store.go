package main

import (
	"bytes"
	"io"
	"reflect"
	"runtime/debug"

	"encoding/binary"
	"errors"
	"fmt"
	"github.com/klauspost/compress/s2"
	"math"
	"os"
	"sort"
	"strconv"
	"strings"
	"time"

	"github.com/kelindar/column"
	"github.com/kelindar/column/commit"
)

// ---------------------------------------------------------------------------------------------
// store mode: the implementation side. All behaviour comes from github.com/kelindar/column;
// this file only parses protocol lines, calls the public API (plus the verif accessors for
// dumps) and prints canonical results.
// ---------------------------------------------------------------------------------------------

// rec is the record type used for record columns: its binary form is the raw bytes; decoding
// fails when the first byte is 0xff (to reach the error branches of the record merge).
type rec struct{ b []byte }

func (r *rec) MarshalBinary() ([]byte, error) { return append([]byte(nil), r.b...), nil }
func (r *rec) UnmarshalBinary(d []byte) error {
	if len(d) > 0 && d[0] == 0xff {
		return errors.New("bad record")
	}
	r.b = append([]byte(nil), d...)
	return nil
}

type emitted struct {
	id    uint64
	chunk uint32
	cm    *commit.Commit // channel logger: the clone received
	wire  []byte         // log logger: the serialized commit
}

// recLogger serialises each commit at emission time (what a log file would hold).
type recLogger struct{ out *[]emitted }

func (l recLogger) Append(cm commit.Commit) error {
	var b bytes.Buffer
	if _, err := cm.WriteTo(&b); err != nil {
		return err
	}
	*l.out = append(*l.out, emitted{id: cm.ID, chunk: uint32(cm.Chunk), wire: b.Bytes()})
	return nil
}

type txnHandle struct {
	lines chan string
	outs  chan string
	done  chan string
}

type trigLog struct {
	name    string
	events  []string
	seen    int
	dropped bool
}

type coll struct {
	c        *column.Collection
	kinds    map[string]string // data / bool columns: name → kind
	indexes  []string
	sorted   []string
	trigs    []*trigLog
	hasKey   bool
	logger   string
	ch       commit.Channel
	emitted  []emitted
	txns     map[string]*txnHandle
	replayed map[string]int
	api      int // rotates the access path of reads and writes (apivariants.go)
}

type storeImpl struct {
	colls map[string]*coll
	snaps map[string][]byte
	dead  bool
}

func newStoreImpl() Impl {
	return &storeImpl{colls: map[string]*coll{}, snaps: map[string][]byte{}}
}

func (s *storeImpl) Close() {
	for _, c := range s.colls {
		c.abortTxns()
		c.c.Close()
	}
	s.colls = map[string]*coll{}
}

func (c *coll) abortTxns() {
	for _, h := range c.txns {
		close(h.lines)
		select {
		case <-h.done:
		case <-time.After(2 * time.Second):
		}
	}
	c.txns = map[string]*txnHandle{}
}

func (c *coll) drain() {
	if c.ch == nil {
		return
	}
	for {
		select {
		case cm := <-c.ch:
			cp := cm
			c.emitted = append(c.emitted, emitted{id: cm.ID, chunk: uint32(cm.Chunk), cm: &cp})
		default:
			return
		}
	}
}

func be(v uint64, w int) []byte {
	b := make([]byte, 8)
	binary.BigEndian.PutUint64(b, v)
	return b[8-w:]
}

func beU(b []byte) uint64 {
	var v uint64
	for _, x := range b {
		v = v<<8 | uint64(x)
	}
	return v
}

func numWidth(kind string) int {
	switch kind {
	case "int16", "uint16":
		return 2
	case "int32", "uint32", "float32":
		return 4
	case "int64", "uint64", "float64", "int", "uint":
		return 8
	}
	return 0
}

func isTextKind(k string) bool { return k == "string" || k == "enum" || k == "key" || k == "record" }

// ---------------------------------------------------------------------------------------------
// named merge functions, predicates and rules (the same families the driver implements)
// ---------------------------------------------------------------------------------------------

type numPred struct {
	op string
	k  int64
}

func parsePred(s string) (numPred, bool) {
	if s == "odd" {
		return numPred{"odd", 0}, true
	}
	for _, op := range []string{"gt", "lt", "eq"} {
		if strings.HasPrefix(s, op) {
			k, err := strconv.ParseInt(s[2:], 10, 64)
			return numPred{op, k}, err == nil
		}
	}
	return numPred{}, false
}

func (p numPred) int(v int64) bool {
	switch p.op {
	case "gt":
		return v > p.k
	case "lt":
		return v < p.k
	case "eq":
		return v == p.k
	case "odd":
		return v%2 != 0
	}
	return false
}

// uint: the model compares the unsigned value as a mathematical integer with k
func (p numPred) uint(v uint64) bool {
	switch p.op {
	case "gt":
		return p.k < 0 || v > uint64(p.k)
	case "lt":
		return p.k >= 0 && v < uint64(p.k)
	case "eq":
		return p.k >= 0 && v == uint64(p.k)
	case "odd":
		return v%2 != 0
	}
	return false
}

func (p numPred) float(v float64) bool {
	switch p.op {
	case "gt":
		return v > float64(p.k)
	case "lt":
		return v < float64(p.k)
	case "eq":
		return v == float64(p.k)
	}
	return false
}

func strPred(p string) (func([]byte) bool, bool) {
	switch {
	case strings.HasPrefix(p, "eq"):
		b, ok := unhex(p[2:])
		return func(v []byte) bool { return bytes.Equal(v, b) }, ok
	case strings.HasPrefix(p, "pfx"):
		b, ok := unhex(p[3:])
		return func(v []byte) bool { return bytes.HasPrefix(v, b) }, ok
	case strings.HasPrefix(p, "len"):
		k, err := strconv.Atoi(p[3:])
		return func(v []byte) bool { return len(v) > k }, err == nil
	}
	return nil, false
}

func parseRule(toks []string) (func(column.Reader) bool, bool) {
	switch {
	case len(toks) == 2 && toks[0] == "int":
		p, ok := parsePred(toks[1])
		return func(r column.Reader) bool { return p.int(int64(r.Int())) }, ok
	case len(toks) == 2 && toks[0] == "uint":
		p, ok := parsePred(toks[1])
		return func(r column.Reader) bool { return p.uint(uint64(r.Uint())) }, ok
	case len(toks) == 2 && toks[0] == "float":
		p, ok := parsePred(toks[1])
		return func(r column.Reader) bool { return p.float(r.Float()) }, ok
	case len(toks) == 2 && toks[0] == "streq":
		b, ok := unhex(toks[1])
		return func(r column.Reader) bool { return r.String() == string(b) }, ok
	case len(toks) == 2 && toks[0] == "strpfx":
		b, ok := unhex(toks[1])
		return func(r column.Reader) bool { return strings.HasPrefix(r.String(), string(b)) }, ok
	case len(toks) == 1 && toks[0] == "bool":
		return func(r column.Reader) bool { return r.Bool() }, true
	case len(toks) == 1 && toks[0] == "always":
		return func(r column.Reader) bool { return true }, true
	case len(toks) == 1 && toks[0] == "never":
		return func(r column.Reader) bool { return false }, true
	}
	return nil, false
}

func mergeFn[T number](name string) func(T, T) T {
	switch name {
	case "dbl":
		return func(v, d T) T { return v + v + d }
	case "delta":
		return func(v, d T) T { return d }
	}
	return nil
}

func makeColumn(kind, merge string) (column.Column, bool) {
	switch kind {
	case "int16":
		if f := mergeFn[int16](merge); f != nil {
			return column.ForInt16(column.WithMerge(f)), true
		}
		return column.ForInt16(), true
	case "int32":
		if f := mergeFn[int32](merge); f != nil {
			return column.ForInt32(column.WithMerge(f)), true
		}
		return column.ForInt32(), true
	case "int64":
		if f := mergeFn[int64](merge); f != nil {
			return column.ForInt64(column.WithMerge(f)), true
		}
		return column.ForInt64(), true
	case "int":
		if f := mergeFn[int](merge); f != nil {
			return column.ForInt(column.WithMerge(f)), true
		}
		return column.ForInt(), true
	case "uint16":
		if f := mergeFn[uint16](merge); f != nil {
			return column.ForUint16(column.WithMerge(f)), true
		}
		return column.ForUint16(), true
	case "uint32":
		if f := mergeFn[uint32](merge); f != nil {
			return column.ForUint32(column.WithMerge(f)), true
		}
		return column.ForUint32(), true
	case "uint64":
		if f := mergeFn[uint64](merge); f != nil {
			return column.ForUint64(column.WithMerge(f)), true
		}
		return column.ForUint64(), true
	case "uint":
		if f := mergeFn[uint](merge); f != nil {
			return column.ForUint(column.WithMerge(f)), true
		}
		return column.ForUint(), true
	case "float32":
		if f := mergeFn[float32](merge); f != nil {
			return column.ForFloat32(column.WithMerge(f)), true
		}
		return column.ForFloat32(), true
	case "float64":
		if f := mergeFn[float64](merge); f != nil {
			return column.ForFloat64(column.WithMerge(f)), true
		}
		return column.ForFloat64(), true
	case "bool":
		return column.ForBool(), true
	case "string":
		switch merge {
		case "concat":
			return column.ForString(column.WithMerge(func(v, d string) string { return v + d })), true
		case "keep":
			return column.ForString(column.WithMerge(func(v, d string) string { return v })), true
		case "tail":
			// a result that is a sub-string of the delta (shares its memory): the last two bytes of a
			// delta longer than two bytes; otherwise the concatenation
			return column.ForString(column.WithMerge(func(v, d string) string {
				if len(d) > 2 {
					return d[len(d)-2:]
				}
				return v + d
			})), true
		}
		return column.ForString(), true
	case "enum":
		return column.ForEnum(), true
	case "key":
		return column.ForKey(), true
	case "record":
		if merge == "concat" {
			return column.ForRecord(func() *rec { return new(rec) }, column.WithMerge(func(v, d *rec) *rec {
				return &rec{b: append(append([]byte(nil), v.b...), d.b...)}
			})), true
		}
		return column.ForRecord(func() *rec { return new(rec) }), true
	}
	return nil, false
}

var reflectKinds = map[string]reflect.Kind{
	"int16": reflect.Int16, "int32": reflect.Int32, "int64": reflect.Int64, "int": reflect.Int,
	"uint16": reflect.Uint16, "uint32": reflect.Uint32, "uint64": reflect.Uint64, "uint": reflect.Uint,
	"float32": reflect.Float32, "float64": reflect.Float64, "bool": reflect.Bool, "string": reflect.String,
}

var zeroOfKind = map[string]any{
	"int16": int16(0), "int32": int32(0), "int64": int64(0), "int": int(0),
	"uint16": uint16(0), "uint32": uint32(0), "uint64": uint64(0), "uint": uint(0),
	"float32": float32(0), "float64": float64(0), "bool": false, "string": "",
}

type number interface {
	~int | ~int16 | ~int32 | ~int64 | ~uint | ~uint16 | ~uint32 | ~uint64 | ~float32 | ~float64
}

// ---------------------------------------------------------------------------------------------

func fnv64(s string) uint64 {
	h := uint64(14695981039346656037)
	for i := 0; i < len(s); i++ {
		h ^= uint64(s[i])
		h *= 1099511628211
	}
	return h
}

func compact(label, body string) string {
	if len(body) > 1500 {
		return fmt.Sprintf("%s=H%d:%d", label, len(body), fnv64(body))
	}
	return label + "=" + body
}

func ranks(ids []uint64) string {
	var nz []uint64
	seen := map[uint64]bool{}
	for _, i := range ids {
		if i != 0 && !seen[i] {
			seen[i] = true
			nz = append(nz, i)
		}
	}
	sort.Slice(nz, func(a, b int) bool { return nz[a] < nz[b] })
	pos := map[uint64]int{}
	for i, v := range nz {
		pos[v] = i + 1
	}
	out := make([]string, len(ids))
	for i, v := range ids {
		out[i] = strconv.Itoa(pos[v])
	}
	return strings.Join(out, ",")
}

func bitList(words []uint64) string {
	var out []string
	for w, x := range words {
		for b := 0; b < 64; b++ {
			if x&(1<<uint(b)) != 0 {
				out = append(out, strconv.Itoa(w*64+b))
			}
		}
	}
	return strings.Join(out, " ")
}

// readTyped reads column `name` of kind `kind` at the row; "" hex for absent
func readTyped(r column.Row, name, kind string) (string, bool) {
	switch kind {
	case "int16":
		v, ok := r.Int16(name)
		return hexOf(be(uint64(uint16(v)), 2)), ok
	case "int32":
		v, ok := r.Int32(name)
		return hexOf(be(uint64(uint32(v)), 4)), ok
	case "int64":
		v, ok := r.Int64(name)
		return hexOf(be(uint64(v), 8)), ok
	case "int":
		v, ok := r.Int(name)
		return hexOf(be(uint64(v), 8)), ok
	case "uint16":
		v, ok := r.Uint16(name)
		return hexOf(be(uint64(v), 2)), ok
	case "uint32":
		v, ok := r.Uint32(name)
		return hexOf(be(uint64(v), 4)), ok
	case "uint64":
		v, ok := r.Uint64(name)
		return hexOf(be(v, 8)), ok
	case "uint":
		v, ok := r.Uint(name)
		return hexOf(be(uint64(v), 8)), ok
	case "float32":
		v, ok := r.Float32(name)
		return hexOf(be(uint64(math.Float32bits(v)), 4)), ok
	case "float64":
		v, ok := r.Float64(name)
		return hexOf(be(math.Float64bits(v), 8)), ok
	case "bool":
		if r.Bool(name) {
			return "01", true
		}
		return "", false
	case "string":
		v, ok := r.String(name)
		return hexOf([]byte(v)), ok
	case "enum":
		v, ok := r.Enum(name)
		return hexOf([]byte(v)), ok
	case "key":
		v, ok := r.Key()
		return hexOf([]byte(v)), ok
	case "record":
		v, ok := r.Record(name)
		if !ok || v == nil {
			return "", false
		}
		return hexOf(v.(*rec).b), true
	}
	return "", false
}

func (c *coll) sortedCols() []string {
	var names []string
	for n := range c.kinds {
		names = append(names, n)
	}
	sort.Strings(names)
	return names
}

func (c *coll) dump() string {
	fill, _ := c.c.VerifFill()
	live := 0
	names := c.sortedCols()
	var rows []string
	c.c.Query(func(txn *column.Txn) error {
		return txn.Range(func(idx uint32) {
			live++
			var parts []string
			txn.QueryAt(idx, func(r column.Row) error {
				for _, n := range names {
					if v, ok := readVariant(txn, r, n, c.kinds[n], c.apiVariant()); ok {
						parts = append(parts, n+"="+v)
					}
				}
				return nil
			})
			rows = append(rows, fmt.Sprintf("%d{%s}", idx, strings.Join(parts, ",")))
		})
	})
	out := []string{fmt.Sprintf("count=%d", c.c.Count()), fmt.Sprintf("fillwords=%d", len(fill)), fmt.Sprintf("live=%d", live), compact("rows", strings.Join(rows, " "))}
	var idxs []string
	for _, n := range c.indexes {
		w, _ := c.c.VerifBits(n)
		idxs = append(idxs, compact("idx:"+n, bitList(w)))
	}
	sort.Strings(idxs)
	out = append(out, idxs...)
	if c.hasKey {
		var ks []string
		for k, v := range c.c.VerifKeys() {
			ks = append(ks, fmt.Sprintf("%s:%d", hexOf([]byte(k)), v))
		}
		sort.Strings(ks)
		out = append(out, compact("keys", strings.Join(ks, " ")))
	}
	var ss []string
	for _, n := range c.sorted {
		es, _ := c.c.VerifSorted(n)
		var parts []string
		for _, e := range es {
			parts = append(parts, fmt.Sprintf("%s:%d", hexOf([]byte(e.Key)), e.Value))
		}
		ss = append(ss, compact("sorted:"+n, strings.Join(parts, " ")))
	}
	sort.Strings(ss)
	out = append(out, ss...)
	out = append(out, "commits="+ranks(c.c.VerifCommits()))
	return strings.Join(out, " ")
}

// stateHash: the bytes writeState hands to the compressor (the state section of a snapshot,
// decompressed), with every chunk's last commit id replaced by its rank, hashed
func (c *coll) stateHash() string {
	var w countingWriter
	w.markAt = -1
	column.VerifSetYield(func(p string) {
		if p == "s:closed" {
			w.markAt = w.buf.Len()
		}
	})
	err := c.c.Snapshot(&w)
	column.VerifSetYield(nil)
	if err != nil || w.markAt < 0 {
		return "err"
	}
	plain, err := io.ReadAll(s2.NewReader(bytes.NewReader(w.buf.Bytes()[:w.markAt])))
	if err != nil {
		return "err"
	}
	// parse, replacing the ids by ranks
	pos := 0
	uv := func() uint64 {
		v, n := binary.Uvarint(plain[pos:])
		if n <= 0 {
			panic("statehash: bad uvarint")
		}
		pos += n
		return v
	}
	var out []byte
	putUv := func(v uint64) {
		var tmp [10]byte
		n := binary.PutUvarint(tmp[:], v)
		out = append(out, tmp[:n]...)
	}
	version, columns, chunks := uv(), uv(), uv()
	putUv(version)
	putUv(columns)
	putUv(chunks)
	type chunkPart struct {
		id   uint64
		rest []byte
	}
	var parts []chunkPart
	for ch := uint64(0); ch < chunks; ch++ {
		id := uv()
		start := pos
		for b := uint64(0); b < columns; b++ {
			n := uv() // column name
			pos += int(n)
			pos += 4 // last
			h := uv()
			pos += int(h) * 12
			n = uv()
			pos += int(n)
		}
		parts = append(parts, chunkPart{id, plain[start:pos]})
	}
	var ids []uint64
	for _, p := range parts {
		ids = append(ids, p.id)
	}
	rk := strings.Split(ranks(ids), ",")
	for i, p := range parts {
		r, _ := strconv.ParseUint(rk[i], 10, 64)
		putUv(r)
		out = append(out, p.rest...)
	}
	if pos != len(plain) {
		return fmt.Sprintf("err trailing=%d", len(plain)-pos)
	}
	h := uint64(14695981039346656037)
	for _, b := range out {
		h ^= uint64(b)
		h *= 1099511628211
	}
	return fmt.Sprintf("state len=%d fnv=%d", len(out), h)
}

func (c *coll) trigDelta() string {
	var outs []string
	for _, t := range c.trigs {
		if len(t.events) > t.seen {
			name := t.name
			if t.dropped {
				name += "!dropped" // a trigger that was dropped (or replaced) must never be called again
			}
			outs = append(outs, fmt.Sprintf("%s[%s]", name, strings.Join(t.events[t.seen:], ",")))
			t.seen = len(t.events)
		}
	}
	if len(outs) == 0 {
		return ""
	}
	return " trig=" + strings.Join(outs, " ")
}

func removeStr(xs []string, x string) []string {
	var out []string
	for _, y := range xs {
		if y != x {
			out = append(out, y)
		}
	}
	return out
}

// ---------------------------------------------------------------------------------------------
// row actions
// ---------------------------------------------------------------------------------------------

// validActions checks every action before any of them is executed (a malformed line must not
// leave partial writes behind: the model rejects the whole line)
func (c *coll) validActions(acts []string) bool {
	for _, a := range acts {
		f := strings.Split(a, ":")
		switch {
		case (f[0] == "set" || f[0] == "merge") && len(f) == 3:
			kind, ok := c.kinds[f[1]]
			val, ok2 := unhex(f[2])
			if !ok || !ok2 || kind == "bool" || kind == "key" || (kind == "enum" && f[0] == "merge") {
				return false
			}
			if w := numWidth(kind); w > 0 && len(val) != w {
				return false
			}
			if len(val) > 65535 {
				return false
			}
		case f[0] == "bool" && len(f) == 3:
			if c.kinds[f[1]] != "bool" {
				return false
			}
		case (f[0] == "key" || f[0] == "rowkey") && len(f) == 2:
			if _, ok := unhex(f[1]); !ok || !c.hasKey {
				return false
			}
		case f[0] == "get" && len(f) == 2:
			if _, ok := c.kinds[f[1]]; !ok && !containsStr(c.indexes, f[1]) {
				return false
			}
		case f[0] == "visit" && len(f) == 2:
			if _, err := strconv.ParseUint(f[1], 10, 32); err != nil {
				return false
			}
		default:
			return false
		}
	}
	return true
}

func (c *coll) runActions(txn *column.Txn, r column.Row, acts []string) (string, bool) {
	var outs []string
	if !c.validActions(acts) {
		return "", false
	}
	for _, a := range acts {
		f := strings.Split(a, ":")
		switch {
		case (f[0] == "set" || f[0] == "merge") && len(f) == 3:
			kind, ok := c.kinds[f[1]]
			val, ok2 := unhex(f[2])
			if !ok || !ok2 {
				return "", false
			}
			if !writeVariant(txn, r, f[1], kind, f[0] == "merge", val, c.apiVariant()) {
				return "", false
			}
		case f[0] == "bool" && len(f) == 3:
			if c.kinds[f[1]] != "bool" {
				return "", false
			}
			r.SetBool(f[1], f[2] == "1")
		case f[0] == "key" && len(f) == 2:
			val, ok := unhex(f[1])
			if !ok || !c.hasKey {
				return "", false
			}
			if err := txn.Key().Set(string(val)); err != nil {
				outs = append(outs, "dup")
			} else {
				outs = append(outs, "set")
			}
		case f[0] == "rowkey" && len(f) == 2:
			// Row.SetKey: the same re-keying, its refusal of a key held elsewhere is not reported to the caller
			val, ok := unhex(f[1])
			if !ok || !c.hasKey {
				return "", false
			}
			r.SetKey(string(val))
		case f[0] == "visit" && len(f) == 2:
			// the callback looks at another row (nested point read): the transaction's cursor moves there
			off, _ := strconv.ParseUint(f[1], 10, 32)
			txn.QueryAt(uint32(off), func(column.Row) error { return nil })
		case f[0] == "get" && len(f) == 2:
			if kind, ok := c.kinds[f[1]]; ok {
				v, has := readVariant(txn, r, f[1], kind, c.apiVariant())
				if kind == "bool" {
					if has {
						outs = append(outs, f[1]+"=1")
					} else {
						outs = append(outs, f[1]+"=0")
					}
				} else if has {
					outs = append(outs, f[1]+"="+v)
				} else {
					outs = append(outs, f[1]+"=~")
				}
			} else if containsStr(c.indexes, f[1]) {
				in := false
				if c.apiVariant()%2 == 0 {
					in = r.Bool(f[1])
				} else if v, ok := r.Any(f[1]); ok { // the untyped reader of an index: its bit
					in, _ = v.(bool)
				}
				if in {
					outs = append(outs, f[1]+"=1")
				} else {
					outs = append(outs, f[1]+"=0")
				}
			} else {
				return "", false
			}
		default:
			return "", false
		}
	}
	if len(outs) == 0 {
		return "", true
	}
	return strings.Join(outs, " "), true
}

func containsStr(xs []string, x string) bool {
	for _, y := range xs {
		if y == x {
			return true
		}
	}
	return false
}

func writeTyped(r column.Row, name, kind string, merge bool, val []byte) bool {
	w := numWidth(kind)
	if w > 0 && len(val) != w {
		return false
	}
	v := beU(val)
	switch kind {
	case "int16":
		if merge {
			r.MergeInt16(name, int16(v))
		} else {
			r.SetInt16(name, int16(v))
		}
	case "int32":
		if merge {
			r.MergeInt32(name, int32(v))
		} else {
			r.SetInt32(name, int32(v))
		}
	case "int64":
		if merge {
			r.MergeInt64(name, int64(v))
		} else {
			r.SetInt64(name, int64(v))
		}
	case "int":
		if merge {
			r.MergeInt(name, int(v))
		} else {
			r.SetInt(name, int(v))
		}
	case "uint16":
		if merge {
			r.MergeUint16(name, uint16(v))
		} else {
			r.SetUint16(name, uint16(v))
		}
	case "uint32":
		if merge {
			r.MergeUint32(name, uint32(v))
		} else {
			r.SetUint32(name, uint32(v))
		}
	case "uint64":
		if merge {
			r.MergeUint64(name, v)
		} else {
			r.SetUint64(name, v)
		}
	case "uint":
		if merge {
			r.MergeUint(name, uint(v))
		} else {
			r.SetUint(name, uint(v))
		}
	case "float32":
		if merge {
			r.MergeFloat32(name, math.Float32frombits(uint32(v)))
		} else {
			r.SetFloat32(name, math.Float32frombits(uint32(v)))
		}
	case "float64":
		if merge {
			r.MergeFloat64(name, math.Float64frombits(v))
		} else {
			r.SetFloat64(name, math.Float64frombits(v))
		}
	case "string":
		if merge {
			r.MergeString(name, string(val))
		} else {
			r.SetString(name, string(val))
		}
	case "enum":
		if merge {
			return false
		}
		r.SetEnum(name, string(val))
	case "record":
		if merge {
			r.MergeRecord(name, &rec{b: val})
		} else {
			r.SetRecord(name, &rec{b: val})
		}
	default:
		return false
	}
	return true
}

func splitActs(toks []string) ([]string, bool) {
	var acts []string
	fail := false
	for _, t := range toks {
		if t == "fail" {
			fail = true
		} else {
			acts = append(acts, t)
		}
	}
	return acts, fail
}

var errScript = errors.New("scripted failure")

// ---------------------------------------------------------------------------------------------
// transaction lines (executed inside the Query callback, on the transaction's goroutine)
// ---------------------------------------------------------------------------------------------

func (c *coll) txnLine(txn *column.Txn, toks []string) string {
	cmd, rest := toks[0], toks[1:]
	switch cmd {
	case "insert":
		acts, fail := splitActs(rest)
		if !c.validActions(acts) {
			return "bad-op"
		}
		bad := false
		var outs string
		idx, err := txn.Insert(func(r column.Row) error {
			o, ok := c.runActions(txn, r, acts)
			if !ok {
				bad = true
			}
			outs = o
			if fail {
				return errScript
			}
			return nil
		})
		if bad {
			return "bad-op"
		}
		if err != nil && err != errScript {
			return "err:unkeyed"
		}
		if err != nil {
			return fmt.Sprintf("off=%d err", idx)
		}
		if outs != "" {
			return fmt.Sprintf("off=%d %s", idx, outs)
		}
		return fmt.Sprintf("off=%d", idx)
	case "at":
		if len(rest) < 1 {
			return "bad-op"
		}
		off, err := strconv.ParseUint(rest[0], 10, 32)
		if err != nil {
			return "bad-op"
		}
		acts, fail := splitActs(rest[1:])
		if !c.validActions(acts) {
			return "bad-op"
		}
		bad := false
		var outs string
		txn.QueryAt(uint32(off), func(r column.Row) error {
			o, ok := c.runActions(txn, r, acts)
			bad = !ok
			outs = o
			return nil
		})
		if bad {
			return "bad-op"
		}
		if outs == "" {
			outs = "ok"
		}
		if fail {
			outs += " err"
		}
		return outs
	case "del":
		if len(rest) != 1 {
			return "bad-op"
		}
		off, err := strconv.ParseUint(rest[0], 10, 32)
		if err != nil {
			return "bad-op"
		}
		return strconv.FormatBool(txn.DeleteAt(uint32(off)))
	case "inskey", "upskey", "qkey":
		if len(rest) < 1 {
			return "bad-op"
		}
		key, ok := unhex(rest[0])
		if !ok {
			return "bad-op"
		}
		acts, fail := splitActs(rest[1:])
		if !c.validActions(acts) {
			return "bad-op"
		}
		bad := false
		var outs string
		var at uint32
		fn := func(r column.Row) error {
			at = r.Index()
			o, ok := c.runActions(txn, r, acts)
			bad = !ok
			outs = o
			if fail {
				return errScript
			}
			return nil
		}
		var err error
		existed := false
		if c.hasKey {
			_, existed = c.c.VerifKeys()[string(key)]
		}
		switch cmd {
		case "inskey":
			err = txn.InsertKey(string(key), fn)
		case "upskey":
			err = txn.UpsertKey(string(key), fn)
		default:
			err = txn.QueryKey(string(key), fn)
		}
		if bad {
			return "bad-op"
		}
		if err != nil && err != errScript {
			msg := err.Error()
			switch {
			case strings.Contains(msg, "does not have a key"):
				return "err:nokey"
			case strings.Contains(msg, "already exists"):
				return "err:exists"
			case strings.Contains(msg, "not found"):
				return "err:notfound"
			}
			return "err:other"
		}
		suffix := ""
		if err == errScript {
			suffix = " err"
		}
		if existed {
			if outs == "" {
				outs = "ok"
			}
			return fmt.Sprintf("at=%d %s%s", at, outs, suffix)
		}
		return fmt.Sprintf("off=%d%s", at, suffix)
	case "delkey":
		if len(rest) != 1 {
			return "bad-op"
		}
		key, ok := unhex(rest[0])
		if !ok {
			return "bad-op"
		}
		if err := txn.DeleteKey(string(key)); err != nil {
			if strings.Contains(err.Error(), "does not have a key") {
				return "err:nokey"
			}
			return "err:notfound"
		}
		return "ok"
	case "select":
		return c.selectLine(txn, rest)
	}
	return "bad-op"
}

func splitNames(s string) []string {
	if s == "" {
		return nil
	}
	return strings.Split(s, ",")
}

func (c *coll) applyFilter(txn *column.Txn, f string) bool {
	p := strings.Split(f, ":")
	switch {
	case p[0] == "with" && len(p) <= 2:
		txn.With(splitNames(strings.Join(p[1:], ""))...)
	case p[0] == "without" && len(p) == 2:
		txn.Without(splitNames(p[1])...)
	case p[0] == "union" && len(p) <= 2:
		txn.Union(splitNames(strings.Join(p[1:], ""))...)
	case p[0] == "withunion" && len(p) <= 2:
		txn.WithUnion(splitNames(strings.Join(p[1:], ""))...)
	case len(p) == 3 && p[0] == "int":
		np, ok := parsePred(p[2])
		if !ok {
			return false
		}
		txn.WithInt(p[1], np.int)
	case len(p) == 3 && p[0] == "uint":
		np, ok := parsePred(p[2])
		if !ok {
			return false
		}
		txn.WithUint(p[1], np.uint)
	case len(p) == 3 && p[0] == "float":
		np, ok := parsePred(p[2])
		if !ok {
			return false
		}
		txn.WithFloat(p[1], np.float)
	case len(p) == 3 && p[0] == "str":
		sp, ok := strPred(p[2])
		if !ok {
			return false
		}
		txn.WithString(p[1], func(v string) bool { return sp([]byte(v)) })
	case len(p) == 3 && p[0] == "val":
		sp, ok := strPred(p[2])
		if !ok {
			return false
		}
		kind := c.kinds[p[1]]
		txn.WithValue(p[1], func(v interface{}) bool { return sp(anyBytes(v, kind)) })
	default:
		return false
	}
	return true
}

func anyBytes(v interface{}, kind string) []byte {
	switch x := v.(type) {
	case string:
		return []byte(x)
	case bool:
		if x {
			return []byte{1}
		}
		return nil
	case int16:
		return be(uint64(uint16(x)), 2)
	case int32:
		return be(uint64(uint32(x)), 4)
	case int64:
		return be(uint64(x), 8)
	case int:
		return be(uint64(x), 8)
	case uint16:
		return be(uint64(x), 2)
	case uint32:
		return be(uint64(x), 4)
	case uint64:
		return be(x, 8)
	case uint:
		return be(uint64(x), 8)
	case float32:
		return be(uint64(math.Float32bits(x)), 4)
	case float64:
		return be(math.Float64bits(x), 8)
	case *rec:
		return x.b
	}
	return nil
}

func floatBits(f float64) string {
	if math.IsNaN(f) {
		return "nan"
	}
	return hexOf(be(math.Float64bits(f), 8))
}

func aggLine[T number](r interface {
	Sum() T
	Avg() float64
	Min() (T, bool)
	Max() (T, bool)
}, what string, w int, bits func(T) uint64) string {
	switch what {
	case "sum":
		return "sum=" + hexOf(be(bits(r.Sum()), w))
	case "avg":
		return "avg=" + floatBits(r.Avg())
	case "min":
		if v, ok := r.Min(); ok {
			return "min=" + hexOf(be(bits(v), w))
		}
		return "min=none"
	case "max":
		if v, ok := r.Max(); ok {
			return "max=" + hexOf(be(bits(v), w))
		}
		return "max=none"
	}
	return "bad-op"
}

// floatAggSafe: float aggregates are compared only when every selected value is an integer of
// small magnitude (SIMD kernels reorder additions and treat NaN / signed zeros their own way)
func (c *coll) floatAggSafe(txn *column.Txn, col, kind string) bool {
	safe := true
	n := 0
	txn.Range(func(idx uint32) {
		txn.QueryAt(idx, func(r column.Row) error {
			var f float64
			var ok bool
			if kind == "float32" {
				var v float32
				v, ok = r.Float32(col)
				f = float64(v)
			} else {
				f, ok = r.Float64(col)
			}
			if ok {
				n++
				if math.IsNaN(f) || math.Floor(f) != f || math.Abs(f) >= 1024 || (f == 0 && math.Signbit(f)) {
					safe = false
				}
			}
			return nil
		})
	})
	return safe && n <= 8192
}

func (c *coll) aggregate(txn *column.Txn, what, col string) string {
	if k := c.kinds[col]; k == "float32" || k == "float64" {
		if !c.floatAggSafe(txn, col, k) {
			// still run it (it must not panic), but do not compare the value
			c.aggregateRaw(txn, what, col)
			return what + "=inexact"
		}
	}
	return c.aggregateRaw(txn, what, col)
}

func (c *coll) aggregateRaw(txn *column.Txn, what, col string) string {
	switch c.kinds[col] {
	case "int16":
		return aggLine[int16](txn.Int16(col), what, 2, func(v int16) uint64 { return uint64(uint16(v)) })
	case "int32":
		return aggLine[int32](txn.Int32(col), what, 4, func(v int32) uint64 { return uint64(uint32(v)) })
	case "int64":
		return aggLine[int64](txn.Int64(col), what, 8, func(v int64) uint64 { return uint64(v) })
	case "int":
		return aggLine[int](txn.Int(col), what, 8, func(v int) uint64 { return uint64(v) })
	case "uint16":
		return aggLine[uint16](txn.Uint16(col), what, 2, func(v uint16) uint64 { return uint64(v) })
	case "uint32":
		return aggLine[uint32](txn.Uint32(col), what, 4, func(v uint32) uint64 { return uint64(v) })
	case "uint64":
		return aggLine[uint64](txn.Uint64(col), what, 8, func(v uint64) uint64 { return v })
	case "uint":
		return aggLine[uint](txn.Uint(col), what, 8, func(v uint) uint64 { return uint64(v) })
	case "float32":
		return aggLine[float32](txn.Float32(col), what, 4, func(v float32) uint64 { return uint64(math.Float32bits(v)) })
	case "float64":
		return aggLine[float64](txn.Float64(col), what, 8, func(v float64) uint64 { return math.Float64bits(v) })
	}
	return "bad-op"
}

func (c *coll) knownName(n string) bool {
	_, ok := c.kinds[n]
	return ok || containsStr(c.indexes, n) || containsStr(c.sorted, n)
}

// validSelect checks the whole line before any filter is applied
func (c *coll) validSelect(filters, action []string) bool {
	for _, f := range filters {
		p := strings.Split(f, ":")
		switch {
		case (p[0] == "with" || p[0] == "union" || p[0] == "withunion") && len(p) <= 2:
		case p[0] == "without" && len(p) == 2:
		case len(p) == 3 && (p[0] == "int" || p[0] == "uint" || p[0] == "float"):
			if _, ok := parsePred(p[2]); !ok {
				return false
			}
		case len(p) == 3 && (p[0] == "str" || p[0] == "val"):
			if _, ok := strPred(p[2]); !ok {
				return false
			}
		default:
			return false
		}
	}
	switch {
	case len(action) == 1 && (action[0] == "count" || action[0] == "range" || action[0] == "deleteall"):
		return true
	case len(action) == 2 && action[0] == "read":
		_, ok := c.kinds[action[1]]
		return ok || containsStr(c.indexes, action[1])
	case len(action) == 2 && action[0] == "ascend":
		return true
	case len(action) == 2 && (action[0] == "sum" || action[0] == "avg" || action[0] == "min" || action[0] == "max"):
		return numWidth(c.kinds[action[1]]) > 0
	}
	return false
}

func (c *coll) selectLine(txn *column.Txn, rest []string) string {
	var filters, action []string
	seenArrow := false
	for _, t := range rest {
		if t == "=>" {
			seenArrow = true
			continue
		}
		if seenArrow {
			action = append(action, strings.Split(t, ":")...)
		} else {
			filters = append(filters, t)
		}
	}
	if !c.validSelect(filters, action) {
		return "bad-op"
	}
	for _, f := range filters {
		if !c.applyFilter(txn, f) {
			return "bad-op"
		}
	}
	switch {
	case len(action) == 1 && action[0] == "count":
		return fmt.Sprintf("count=%d", txn.Count())
	case len(action) == 1 && action[0] == "range":
		var out []string
		txn.Range(func(idx uint32) { out = append(out, strconv.Itoa(int(idx))) })
		return compact("rows", strings.Join(out, " "))
	case len(action) == 2 && action[0] == "read":
		kind, ok := c.kinds[action[1]]
		isIdx := containsStr(c.indexes, action[1])
		if !ok && !isIdx {
			return "bad-op"
		}
		var out []string
		txn.Range(func(idx uint32) {
			// read through the cursor the iteration positioned (Row readers use txn.cursor)
			cur := txn.Index()
			txn.QueryAt(cur, func(r column.Row) error {
				if isIdx {
					in := false
					if c.apiVariant()%2 == 0 {
						in = r.Bool(action[1])
					} else if v, ok := r.Any(action[1]); ok {
						in, _ = v.(bool)
					}
					if in {
						out = append(out, fmt.Sprintf("%d:01", idx))
					} else {
						out = append(out, fmt.Sprintf("%d:~", idx))
					}
					return nil
				}
				if v, has := readVariant(txn, r, action[1], kind, c.apiVariant()); has {
					out = append(out, fmt.Sprintf("%d:%s", idx, v))
				} else {
					out = append(out, fmt.Sprintf("%d:~", idx))
				}
				return nil
			})
		})
		return compact("vals", strings.Join(out, " "))
	case len(action) == 1 && action[0] == "deleteall":
		// DeleteAll first: it may be the first selection call of the transaction; it leaves the selection as it is,
		// so the count taken afterwards is the number of rows it was given
		txn.DeleteAll()
		n := txn.Count()
		return fmt.Sprintf("deleted=%d", n)
	case len(action) == 2 && action[0] == "ascend":
		var out []string
		if err := txn.Ascend(action[1], func(idx uint32) { out = append(out, strconv.Itoa(int(idx))) }); err != nil {
			return "err:nosort"
		}
		return compact("rows", strings.Join(out, " "))
	case len(action) == 2:
		return c.aggregate(txn, action[0], action[1])
	}
	return "bad-op"
}

// ---------------------------------------------------------------------------------------------
// collection-level lines
// ---------------------------------------------------------------------------------------------

func kv(toks []string, key string) (string, bool) {
	for _, t := range toks {
		if strings.HasPrefix(t, key+"=") {
			return t[len(key)+1:], true
		}
	}
	return "", false
}

func (s *storeImpl) Exec(line string) string {
	toks := strings.Fields(line)
	if len(toks) == 0 {
		return "bad-op"
	}
	if toks[0] == "reset" {
		s.Close()
		s.snaps = map[string][]byte{}
		s.dead = false
		return "ok"
	}
	if s.dead {
		return "dead"
	}
	out := s.exec(toks)
	if strings.HasPrefix(out, "panic") {
		s.dead = true
		if os.Getenv("VERIF_DEBUG") != "" {
			fmt.Fprintln(os.Stderr, "DEBUG", line, "=>", out)
		}
		return "panic"
	}
	return out
}

func (s *storeImpl) exec(toks []string) (out string) {
	defer func() {
		if r := recover(); r != nil {
			out = "panic:" + fmt.Sprint(r)
			if os.Getenv("VERIF_DEBUG") != "" {
				out += " " + string(debug.Stack())
			}
		}
	}()
	switch toks[0] {
	case "hash":
		return "ok"
	case "new":
		if len(toks) < 2 {
			return "bad-op"
		}
		if old, ok := s.colls[toks[1]]; ok {
			old.abortTxns()
			old.c.Close()
		}
		capS, _ := kv(toks[2:], "cap")
		capN, _ := strconv.Atoi(capS)
		lg, _ := kv(toks[2:], "logger")
		c := &coll{kinds: map[string]string{"expire": "int64"}, txns: map[string]*txnHandle{}, replayed: map[string]int{}, logger: lg}
		opts := column.Options{Capacity: capN, Vacuum: 24 * time.Hour}
		switch lg {
		case "channel":
			c.ch = make(commit.Channel, 1<<16)
			opts.Writer = c.ch
		case "log":
			opts.Writer = recLogger{out: &c.emitted}
		}
		c.c = column.NewCollection(opts)
		s.colls[toks[1]] = c
		return "ok"
	}
	c, ok := s.colls[toks[0]]
	if !ok || len(toks) < 2 {
		return "bad-op"
	}
	rest := toks[1:]
	switch rest[0] {
	case "col":
		if len(rest) < 3 {
			return "bad-op"
		}
		merge, _ := kv(rest[3:], "merge")
		col, ok := makeColumn(rest[2], merge)
		if !ok {
			return "bad-op"
		}
		if k, byKind := reflectKinds[rest[2]]; byKind && merge == "" && !apiPinned && (fnv64(rest[1])+uint64(len(c.kinds)))%2 == 1 {
			// the other constructor of the same column: ForKind (default options)
			if alt, err := column.ForKind(k); err == nil {
				col = alt
			}
		}
		_, existed := c.kinds[rest[1]]
		create := func() error { return c.c.CreateColumn(rest[1], col) }
		if z, byKind := zeroOfKind[rest[2]]; byKind && merge == "" && !apiPinned && (fnv64(rest[1])+uint64(len(c.kinds)))%4 == 3 {
			// the third way to the same column: CreateColumnsOf, from a sample value
			create = func() error { return c.c.CreateColumnsOf(map[string]any{rest[1]: z}) }
		}
		if err := create(); err != nil {
			if !existed && rest[2] == "key" {
				c.kinds[rest[1]] = rest[2] // registered, but refused as a second key
			}
			return "err"
		}
		c.kinds[rest[1]] = rest[2]
		if rest[2] == "key" {
			c.hasKey = true
		}
		return "ok"
	case "index":
		if len(rest) < 4 {
			return "bad-op"
		}
		rule, ok := parseRule(rest[3:])
		if !ok {
			return "bad-op"
		}
		if err := c.c.CreateIndex(rest[1], rest[2], rule); err != nil {
			return "err"
		}
		if !containsStr(c.indexes, rest[1]) {
			c.indexes = append(c.indexes, rest[1])
		}
		return "ok"
	case "sortindex":
		if len(rest) != 3 {
			return "bad-op"
		}
		if err := c.c.CreateSortIndex(rest[1], rest[2]); err != nil {
			return "err"
		}
		c.sorted = append(c.sorted, rest[1])
		return "ok"
	case "trigger":
		if len(rest) != 3 {
			return "bad-op"
		}
		t := &trigLog{name: rest[1]}
		if err := c.c.CreateTrigger(rest[1], rest[2], func(r column.Reader) {
			typ := 0
			if r.IsUpsert() {
				typ = 2
			}
			t.events = append(t.events, fmt.Sprintf("%d:%d:%s", r.Index(), typ, hexOf(r.Bytes())))
		}); err != nil {
			return "err"
		}
		for _, o := range c.trigs {
			if o.name == rest[1] {
				o.dropped = true
			}
		}
		c.trigs = append(c.trigs, t)
		return "ok"
	case "dropcol":
		if len(rest) != 2 {
			return "bad-op"
		}
		c.c.DropColumn(rest[1])
		delete(c.kinds, rest[1])
		return "ok"
	case "dropindex", "droptrigger":
		if len(rest) != 2 {
			return "bad-op"
		}
		var err error
		if rest[0] == "dropindex" {
			err = c.c.DropIndex(rest[1])
		} else {
			err = c.c.DropTrigger(rest[1])
		}
		if err != nil {
			return "err"
		}
		c.indexes = removeStr(c.indexes, rest[1])
		c.sorted = removeStr(c.sorted, rest[1])
		for _, o := range c.trigs {
			if o.name == rest[1] {
				o.dropped = true
			}
		}
		return "ok"
	case "begin":
		if len(rest) != 2 {
			return "bad-op"
		}
		h := &txnHandle{lines: make(chan string), outs: make(chan string), done: make(chan string, 1)}
		c.txns[rest[1]] = h
		go func() {
			res := "rolledback"
			defer func() {
				if r := recover(); r != nil {
					res = "panic:" + fmt.Sprint(r)
				}
				h.done <- res
			}()
			err := c.c.Query(func(txn *column.Txn) error {
				for l := range h.lines {
					if l == "\x00commit" {
						return nil
					}
					if l == "\x00rollback" {
						return errScript
					}
					h.outs <- safeTxnLine(c, txn, strings.Fields(l))
				}
				return errScript
			})
			if err == nil {
				res = "committed"
			}
		}()
		return "ok"
	case "commit", "rollback":
		if len(rest) != 2 {
			return "bad-op"
		}
		h, ok := c.txns[rest[1]]
		if !ok {
			return "bad-op"
		}
		delete(c.txns, rest[1])
		before := len(c.emitted)
		c.drain()
		before = len(c.emitted)
		h.lines <- "\x00" + rest[0]
		res := <-h.done
		if strings.HasPrefix(res, "panic") {
			return res
		}
		c.drain()
		if rest[0] == "rollback" {
			return "rolledback" + c.trigDelta()
		}
		var chunks []string
		for _, e := range c.emitted[before:] {
			chunks = append(chunks, strconv.Itoa(int(e.chunk)))
		}
		return fmt.Sprintf("committed emitted=%d chunks=%s", len(c.emitted)-before, strings.Join(chunks, ",")) + c.trigDelta()
	case "sparse":
		var offs []uint32
		for _, x := range rest[1:] {
			v, err := strconv.ParseUint(x, 10, 32)
			if err != nil {
				return "bad-op"
			}
			offs = append(offs, uint32(v))
		}
		insertMarkers(c.c, offs...)
		c.drain()
		return "ok" + c.trigDelta()
	case "statehash":
		return c.stateHash()
	case "dump":
		return c.dump()
	case "count":
		return fmt.Sprintf("count=%d", c.c.Count())
	case "snapshot":
		if len(rest) == 4 && rest[2] == "with" {
			// a snapshot during which the open transaction rest[3] commits: after the chunk states are written,
			// while the recorder is still installed (the commit ends up in the recorded log of the file)
			h, ok := c.txns[rest[3]]
			if !ok {
				return "bad-op"
			}
			delete(c.txns, rest[3])
			c.drain()
			before := len(c.emitted)
			res := ""
			column.VerifSetYield(func(p string) {
				if p == "s:written" && res == "" {
					h.lines <- "\x00commit"
					res = <-h.done
				}
			})
			var b bytes.Buffer
			err := c.c.Snapshot(&b)
			column.VerifSetYield(nil)
			if strings.HasPrefix(res, "panic") {
				return res
			}
			if err != nil || res == "" {
				return "err"
			}
			c.drain()
			s.snaps[rest[1]] = b.Bytes()
			var chunks []string
			for _, e := range c.emitted[before:] {
				chunks = append(chunks, strconv.Itoa(int(e.chunk)))
			}
			return fmt.Sprintf("ok committed emitted=%d chunks=%s", len(c.emitted)-before, strings.Join(chunks, ",")) + c.trigDelta()
		}
		if len(rest) != 2 {
			return "bad-op"
		}
		var b bytes.Buffer
		if err := c.c.Snapshot(&b); err != nil {
			return "err"
		}
		s.snaps[rest[1]] = b.Bytes()
		return "ok"
	case "restore":
		if len(rest) != 2 {
			return "bad-op"
		}
		data, ok := s.snaps[rest[1]]
		if !ok {
			return "bad-op"
		}
		// the same content cut into other compression blocks must restore alike: every other restore reads a copy
		// of the stream whose blocks end at pseudo-random places (a reader of a compressed stream returns short at
		// each block end)
		if !apiPinned && c.apiVariant()%2 == 1 {
			if alt, ok := reblock(data); ok {
				data = alt
			}
		}
		if err := c.c.Restore(bytes.NewReader(data)); err != nil {
			return "err"
		}
		c.drain()
		return "ok" + c.trigDelta()
	case "replay":
		if len(rest) != 2 {
			return "bad-op"
		}
		src, ok := s.colls[rest[1]]
		if !ok {
			return "bad-op"
		}
		src.drain()
		done := c.replayed[rest[1]]
		n := 0
		for _, e := range src.emitted[done:] {
			var cm commit.Commit
			if e.cm != nil {
				cm = e.cm.Clone()
			} else {
				if _, err := cm.ReadFrom(bytes.NewReader(e.wire)); err != nil {
					return "err"
				}
			}
			if err := c.c.Replay(cm); err != nil {
				return "err"
			}
			n++
		}
		c.replayed[rest[1]] = len(src.emitted)
		c.drain()
		return fmt.Sprintf("replayed=%d", n) + c.trigDelta()
	}
	// transaction line
	h, ok := c.txns[rest[0]]
	if !ok || len(rest) < 2 {
		return "bad-op"
	}
	h.lines <- strings.Join(rest[1:], " ")
	select {
	case o := <-h.outs:
		return o
	case res := <-h.done:
		delete(c.txns, rest[0])
		return res
	case <-time.After(20 * time.Second):
		return "panic:timeout"
	}
}

func safeTxnLine(c *coll, txn *column.Txn, toks []string) (out string) {
	defer func() {
		if r := recover(); r != nil {
			out = "panic:" + fmt.Sprint(r)
		}
	}()
	if len(toks) == 0 {
		return "bad-op"
	}
	return c.txnLine(txn, toks)
}

func init() {
	// private temp dir for snapshot recorders
	dir := os.Getenv("VERIF_TMP")
	if dir == "" {
		dir, _ = os.MkdirTemp("", "verif-harness-")
		harnessTmpOwned = true
	}
	os.MkdirAll(dir, 0o755)
	os.Setenv("TMPDIR", dir)
	harnessTmp = dir
}

var harnessTmp string
var harnessTmpOwned bool // created by this process: removed when it ends
