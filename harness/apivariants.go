package main

import (
	"math"
	"os"

	"github.com/kelindar/column"
)

// The library offers several equivalent ways to read and write one column of the row under the cursor: the typed
// Row methods, the typed transaction accessors (txn.Int32(col).Get/Set/Merge), the untyped ones (Row.Any, Row.SetAny,
// txn.Any(col)) and Row.SetMany. The store harness rotates through them, so that each of these paths is held to the
// same model as the typed Row methods. VERIF_API=typed pins the typed Row methods (debugging aid).

var apiPinned = os.Getenv("VERIF_API") == "typed"

// apiVariant picks the access path for the n-th access
func (c *coll) apiVariant() int {
	if apiPinned {
		return 0
	}
	c.api++
	return c.api % 4
}

// anyValue is the Go value whose dynamic type the untyped writers map to the column's own wire operation
func anyValue(kind string, val []byte) (any, bool) {
	v := beU(val)
	switch kind {
	case "int16":
		return int16(v), true
	case "int32":
		return int32(v), true
	case "int64":
		return int64(v), true
	case "int":
		return int(v), true
	case "uint16":
		return uint16(v), true
	case "uint32":
		return uint32(v), true
	case "uint64":
		return v, true
	case "uint":
		return uint(v), true
	case "float32":
		return math.Float32frombits(uint32(v)), true
	case "float64":
		return math.Float64frombits(v), true
	case "string", "enum":
		return string(val), true
	case "record":
		return &rec{b: val}, true
	}
	return nil, false
}

// anyHex renders what the untyped readers return in the harness's canonical form
func anyHex(kind string, v any, ok bool) (string, bool) {
	if !ok || v == nil {
		return "", false
	}
	switch x := v.(type) {
	case int16:
		return hexOf(be(uint64(uint16(x)), 2)), kind == "int16"
	case int32:
		return hexOf(be(uint64(uint32(x)), 4)), kind == "int32"
	case int64:
		return hexOf(be(uint64(x), 8)), kind == "int64"
	case int:
		return hexOf(be(uint64(x), 8)), kind == "int"
	case uint16:
		return hexOf(be(uint64(x), 2)), kind == "uint16"
	case uint32:
		return hexOf(be(uint64(x), 4)), kind == "uint32"
	case uint64:
		return hexOf(be(x, 8)), kind == "uint64"
	case uint:
		return hexOf(be(uint64(x), 8)), kind == "uint"
	case float32:
		return hexOf(be(uint64(math.Float32bits(x)), 4)), kind == "float32"
	case float64:
		return hexOf(be(math.Float64bits(x), 8)), kind == "float64"
	case string:
		return hexOf([]byte(x)), kind == "string" || kind == "enum" || kind == "key"
	case bool:
		if x {
			return "01", kind == "bool"
		}
		return "", false
	case *rec:
		return hexOf(x.b), kind == "record"
	}
	return "", false
}

// readVariant reads column `name` through the access path `variant`
func readVariant(txn *column.Txn, r column.Row, name, kind string, variant int) (string, bool) {
	if txn == nil && variant%2 == 1 {
		variant--
	}
	switch variant {
	case 1: // typed transaction accessor
		switch kind {
		case "int16":
			v, ok := txn.Int16(name).Get()
			return hexOf(be(uint64(uint16(v)), 2)), ok
		case "int32":
			v, ok := txn.Int32(name).Get()
			return hexOf(be(uint64(uint32(v)), 4)), ok
		case "int64":
			v, ok := txn.Int64(name).Get()
			return hexOf(be(uint64(v), 8)), ok
		case "int":
			v, ok := txn.Int(name).Get()
			return hexOf(be(uint64(v), 8)), ok
		case "uint16":
			v, ok := txn.Uint16(name).Get()
			return hexOf(be(uint64(v), 2)), ok
		case "uint32":
			v, ok := txn.Uint32(name).Get()
			return hexOf(be(uint64(v), 4)), ok
		case "uint64":
			v, ok := txn.Uint64(name).Get()
			return hexOf(be(v, 8)), ok
		case "uint":
			v, ok := txn.Uint(name).Get()
			return hexOf(be(uint64(v), 8)), ok
		case "float32":
			v, ok := txn.Float32(name).Get()
			return hexOf(be(uint64(math.Float32bits(v)), 4)), ok
		case "float64":
			v, ok := txn.Float64(name).Get()
			return hexOf(be(math.Float64bits(v), 8)), ok
		case "bool":
			if txn.Bool(name).Get() {
				return "01", true
			}
			return "", false
		case "string":
			v, ok := txn.String(name).Get()
			return hexOf([]byte(v)), ok
		case "enum":
			v, ok := txn.Enum(name).Get()
			return hexOf([]byte(v)), ok
		case "key":
			v, ok := txn.Key().Get()
			return hexOf([]byte(v)), ok
		case "record":
			v, ok := txn.Record(name).Get()
			if !ok || v == nil {
				return "", false
			}
			return hexOf(v.(*rec).b), true
		}
	case 2: // untyped Row read
		if kind != "key" {
			v, ok := r.Any(name)
			return anyHex(kind, v, ok)
		}
	case 3: // untyped transaction accessor
		if kind != "key" {
			v, ok := txn.Any(name).Get()
			return anyHex(kind, v, ok)
		}
	}
	return readTyped(r, name, kind)
}

// writeVariant writes column `name` through the access path `variant`; false = the action is not executable
func writeVariant(txn *column.Txn, r column.Row, name, kind string, merge bool, val []byte, variant int) bool {
	w := numWidth(kind)
	if w > 0 && len(val) != w {
		return false
	}
	if kind == "enum" && merge {
		return false
	}
	v := beU(val)
	switch variant {
	case 1: // typed transaction accessor
		switch kind {
		case "int16":
			if merge {
				txn.Int16(name).Merge(int16(v))
			} else {
				txn.Int16(name).Set(int16(v))
			}
		case "int32":
			if merge {
				txn.Int32(name).Merge(int32(v))
			} else {
				txn.Int32(name).Set(int32(v))
			}
		case "int64":
			if merge {
				txn.Int64(name).Merge(int64(v))
			} else {
				txn.Int64(name).Set(int64(v))
			}
		case "int":
			if merge {
				txn.Int(name).Merge(int(v))
			} else {
				txn.Int(name).Set(int(v))
			}
		case "uint16":
			if merge {
				txn.Uint16(name).Merge(uint16(v))
			} else {
				txn.Uint16(name).Set(uint16(v))
			}
		case "uint32":
			if merge {
				txn.Uint32(name).Merge(uint32(v))
			} else {
				txn.Uint32(name).Set(uint32(v))
			}
		case "uint64":
			if merge {
				txn.Uint64(name).Merge(v)
			} else {
				txn.Uint64(name).Set(v)
			}
		case "uint":
			if merge {
				txn.Uint(name).Merge(uint(v))
			} else {
				txn.Uint(name).Set(uint(v))
			}
		case "float32":
			if merge {
				txn.Float32(name).Merge(math.Float32frombits(uint32(v)))
			} else {
				txn.Float32(name).Set(math.Float32frombits(uint32(v)))
			}
		case "float64":
			if merge {
				txn.Float64(name).Merge(math.Float64frombits(v))
			} else {
				txn.Float64(name).Set(math.Float64frombits(v))
			}
		case "string":
			if merge {
				txn.String(name).Merge(string(val))
			} else {
				txn.String(name).Set(string(val))
			}
		case "enum":
			txn.Enum(name).Set(string(val))
		case "record":
			if merge {
				txn.Record(name).Merge(&rec{b: val})
			} else {
				txn.Record(name).Set(&rec{b: val})
			}
		default:
			return false
		}
		return true
	case 2, 3: // untyped writers (they only put, never merge)
		if !merge {
			if x, ok := anyValue(kind, val); ok {
				if variant == 2 {
					r.SetAny(name, x)
				} else if err := r.SetMany(map[string]any{name: x}); err != nil {
					return false
				}
				return true
			}
		}
	}
	return writeTyped(r, name, kind, merge, val)
}
