package main

import (
	"bytes"
	"encoding/binary"
	"fmt"
	"math/rand"
	"os"
	"sort"
	"strings"
	"sync"
	"sync/atomic"
	"time"

	"github.com/kelindar/column"
	"github.com/kelindar/column/commit"
)

// ---------------------------------------------------------------------------------------------
// scenarios for the controlled scheduler
// ---------------------------------------------------------------------------------------------

type streamCommit struct {
	id    uint64
	chunk uint32
	puts  map[string][][2]uint64 // column → (offset, value as uint64 of the last ≤8 bytes) for Put ops
	dels  []uint32
	raw   *commit.Commit // channel logger: the clone
	wire  []byte         // log logger: serialized
}

// streamLogger records commits in arrival order (serialised by the logger's own mutex, as a real
// log file or channel would)
type streamLogger struct {
	mu     sync.Mutex
	kind   string
	stream []streamCommit
}

func decodeCommit(cm *commit.Commit) (map[string][][2]uint64, []uint32) {
	puts := map[string][][2]uint64{}
	var dels []uint32
	r := commit.NewReader()
	for _, u := range cm.Updates {
		r.Range(u, cm.Chunk, func(r *commit.Reader) {
			for r.Next() {
				switch {
				case u.Column == "row" && r.Type == commit.Delete:
					dels = append(dels, r.Index())
				case r.Type == commit.Put && u.Column != "row":
					b := r.Bytes()
					var v uint64
					for _, x := range b {
						v = v<<8 | uint64(x)
					}
					puts[u.Column] = append(puts[u.Column], [2]uint64{uint64(r.Index()), v})
				}
			}
		})
	}
	return puts, dels
}

func (l *streamLogger) Append(cm commit.Commit) error {
	l.mu.Lock()
	defer l.mu.Unlock()
	sc := streamCommit{id: cm.ID, chunk: uint32(cm.Chunk)}
	if l.kind == "log" {
		var b bytes.Buffer
		cm.WriteTo(&b)
		sc.wire = b.Bytes()
		var back commit.Commit
		back.ReadFrom(bytes.NewReader(sc.wire))
		sc.puts, sc.dels = decodeCommit(&back)
		sc.id, sc.chunk = back.ID, uint32(back.Chunk) // what a reader of the log file receives
	} else {
		cl := cm.Clone()
		sc.raw = &cl
		sc.puts, sc.dels = decodeCommit(&cl)
		sc.id, sc.chunk = cl.ID, uint32(cl.Chunk) // what the consumer of the channel receives
	}
	l.stream = append(l.stream, sc)
	return nil
}

func (l *streamLogger) replayInto(r *column.Collection) error {
	for _, sc := range l.stream {
		var cm commit.Commit
		if sc.raw != nil {
			cm = sc.raw.Clone()
		} else if _, err := cm.ReadFrom(bytes.NewReader(sc.wire)); err != nil {
			return err
		}
		if err := r.Replay(cm); err != nil {
			return err
		}
	}
	return nil
}

func insertMarkers(c *column.Collection, offs ...uint32) {
	// sparse population through Replay (public API): insert markers at the given offsets
	byChunk := map[uint32][]uint32{}
	for _, o := range offs {
		byChunk[o>>14] = append(byChunk[o>>14], o)
	}
	var chunks []uint32
	for ch := range byChunk {
		chunks = append(chunks, ch)
	}
	sort.Slice(chunks, func(a, b int) bool { return chunks[a] < chunks[b] })
	for _, ch := range chunks {
		b := commit.NewBuffer(64)
		b.Reset("row")
		for _, o := range byChunk[ch] {
			b.PutOperation(commit.Insert, o)
		}
		c.Replay(commit.Commit{ID: 1, Chunk: commit.Chunk(ch), Updates: []*commit.Buffer{b}})
	}
}

func dblMerge(v, d int64) int64 { return v*2 + d }

func newSchedColl(lg commit.Logger) *column.Collection {
	c := column.NewCollection(column.Options{Capacity: 64, Vacuum: 24 * time.Hour, Writer: lg})
	c.CreateColumn("x", column.ForInt64(column.WithMerge(dblMerge))) // order-sensitive merge
	c.CreateColumn("y", column.ForInt64())                           // additive merge
	c.CreateColumn("a", column.ForInt64())
	c.CreateColumn("b", column.ForInt64())
	c.CreateColumn("tag", column.ForInt64())
	return c
}

// hookCol is a user-defined column (the Column interface is public) that delegates to a stock int64
// column and parks the calling worker after Grow and after Apply: a commit can be stopped between two
// of its column stores, and a chunk allocation between two column growths, without any hook in /repo.
type hookCol struct {
	column.Column
	s *scheduler
}

func (h *hookCol) Grow(idx uint32) {
	h.Column.Grow(idx)
	if h.s != nil {
		h.s.yield("g:grown")
	}
}

func (h *hookCol) Snapshot(chunk commit.Chunk, dst *commit.Buffer) {
	h.Column.Snapshot(chunk, dst)
	if h.s != nil {
		h.s.yield("g:snap")
	}
}

func (h *hookCol) Apply(chunk commit.Chunk, r *commit.Reader) {
	h.Column.Apply(chunk, r)
	if h.s != nil {
		h.s.yield("g:applied")
	}
}

// newSchedCollHooked: like newSchedColl, with the hooked column "h" registered first (grown and, when a
// transaction writes a, h, y in that order, applied between a and y)
func newSchedCollHooked(lg commit.Logger, h *hookCol) *column.Collection {
	c := column.NewCollection(column.Options{Capacity: 64, Vacuum: 24 * time.Hour, Writer: lg})
	if h != nil {
		c.CreateColumn("h", h)
	} else {
		c.CreateColumn("h", column.ForInt64())
	}
	c.CreateColumn("x", column.ForInt64(column.WithMerge(dblMerge)))
	c.CreateColumn("y", column.ForInt64())
	c.CreateColumn("a", column.ForInt64())
	c.CreateColumn("b", column.ForInt64())
	c.CreateColumn("tag", column.ForInt64())
	return c
}

func dumpRows(c *column.Collection, cols []string) string {
	var rows []string
	c.Query(func(txn *column.Txn) error {
		return txn.Range(func(idx uint32) {
			var parts []string
			txn.QueryAt(idx, func(r column.Row) error {
				for _, n := range cols {
					if v, ok := r.Int64(n); ok {
						parts = append(parts, fmt.Sprintf("%s=%d", n, v))
					}
				}
				return nil
			})
			rows = append(rows, fmt.Sprintf("%d{%s}", idx, strings.Join(parts, ",")))
		})
	})
	return fmt.Sprintf("count=%d %s", c.Count(), strings.Join(rows, " "))
}

var schedCols = []string{"x", "y", "a", "b", "tag"}

// checkStream: C15 clauses on the recorded stream
func checkStream(l *streamLogger) (string, string) {
	seen := map[uint64]bool{}
	last := map[uint32]uint64{}
	for i, sc := range l.stream {
		if sc.id == 0 {
			return "ids", fmt.Sprintf("commit #%d of the stream (chunk %d) carries ID 0", i, sc.chunk)
		}
		if seen[sc.id] {
			return "ids", fmt.Sprintf("commit ID %d appears twice in the stream", sc.id)
		}
		seen[sc.id] = true
		if sc.id <= last[sc.chunk] {
			return "ids", fmt.Sprintf("chunk %d: commit ID %d reached the logger after ID %d (ids do not increase in logger order)", sc.chunk, sc.id, last[sc.chunk])
		}
		last[sc.chunk] = sc.id
	}
	return "", ""
}

type writerPlan struct {
	rows   []uint32 // rows merged into by every transaction of the writer
	txns   int
	deltas []int64
}

// scenarioWriters: n writers merging into overlapping rows of 1..2 chunks; checks C15 (stream),
// C09 (no lost merge, order-sensitive merge = fold in logger order), C06 (replica converges)
func scenarioWriters(name, logKind string, plans []writerPlan, withReader bool) scenario {
	return scenario{name: name, build: func(s *scheduler) (func(*scheduler) (string, string, string), func()) {
		lg := &streamLogger{kind: logKind}
		c := newSchedColl(lg)
		rowSet := map[uint32]bool{}
		for _, p := range plans {
			for _, r := range p.rows {
				rowSet[r] = true
			}
		}
		var rows []uint32
		for r := range rowSet {
			rows = append(rows, r)
		}
		sort.Slice(rows, func(a, b int) bool { return rows[a] < rows[b] })
		column.VerifSetYield(nil)
		insertMarkers(c, rows...)
		c.Query(func(txn *column.Txn) error {
			for _, r := range rows {
				txn.QueryAt(r, func(row column.Row) error {
					row.SetInt64("x", 1)
					row.SetInt64("y", 0)
					row.SetInt64("a", 0)
					row.SetInt64("b", 0)
					return nil
				})
			}
			return nil
		})
		lg.mu.Lock()
		lg.stream = nil // the replica starts from the same initial rows (set up below)
		lg.mu.Unlock()
		column.VerifSetYield(s.yield)
		tag := int64(0)
		torn := int64(0)
		for wi, p := range plans {
			p := p
			wi := wi
			s.spawn(fmt.Sprintf("writer%d", wi), func() {
				for k := 0; k < p.txns; k++ {
					d := p.deltas[k%len(p.deltas)]
					t := atomic.AddInt64(&tag, 1)
					c.Query(func(txn *column.Txn) error {
						for _, r := range p.rows {
							txn.QueryAt(r, func(row column.Row) error {
								row.MergeInt64("x", d)
								row.MergeInt64("y", d)
								row.SetInt64("a", t)
								row.SetInt64("b", t)
								row.SetInt64("tag", t)
								return nil
							})
						}
						return nil
					})
				}
			})
		}
		if withReader {
			s.spawn("reader", func() {
				for k := 0; k < 2; k++ {
					for _, r := range rows {
						c.QueryAt(r, func(row column.Row) error {
							a, _ := row.Int64("a")
							s.yield("r:mid") // parked inside the callback, holding the read latch
							b, _ := row.Int64("b")
							if a != b {
								atomic.StoreInt64(&torn, int64(r)+1)
							}
							return nil
						})
					}
				}
			})
		}
		check := func(s *scheduler) (string, string, string) {
			// every oracle runs; the outcome lists all failing classes (a property looks at its own)
			var fcls, fmsg, fknown []string
			add := func(cls, msg, known string) {
				fcls, fmsg, fknown = append(fcls, cls), append(fmsg, msg), append(fknown, known)
			}
			if cls, msg := checkStream(lg); msg != "" {
				add(cls, msg, "")
			}
			if torn != 0 {
				add("torn", fmt.Sprintf("a reader positioned on row %d saw columns a and b from different commits inside one callback", torn-1), "")
			}
			// C09: additive column: every delta exactly once
			want := map[uint32]int64{}
			for _, p := range plans {
				for k := 0; k < p.txns; k++ {
					for _, r := range p.rows {
						want[r] += p.deltas[k%len(p.deltas)]
					}
				}
			}
			bad := ""
			c.Query(func(txn *column.Txn) error {
				for _, r := range rows {
					txn.QueryAt(r, func(row column.Row) error {
						if y, _ := row.Int64("y"); y != want[r] {
							bad = fmt.Sprintf("row %d: y=%d after all merges committed, initial value + every delta exactly once is %d", r, y, want[r])
						}
						return nil
					})
				}
				return nil
			})
			if bad != "" {
				add("lost", bad, "")
			}
			// order-sensitive merge: the emitted Puts of x form the running fold in logger order
			cur := map[uint32]int64{}
			for _, r := range rows {
				cur[r] = 1
			}
			deltaOfTag := map[int64]int64{}
			_ = deltaOfTag
		chainLoop:
			for _, sc := range lg.stream {
				xs := sc.puts["x"]
				ys := sc.puts["y"]
				for i, px := range xs {
					off := uint32(px[0])
					if i >= len(ys) {
						break
					}
					// the commit's own delta is recoverable from y: y_new - y_old, but y_old is not in the commit;
					// use the chain on x instead: x_new = 2*x_old + d  with  d ∈ deltas of some writer on this row
					xn := int64(px[1])
					d := xn - 2*cur[off]
					okDelta := false
					for _, p := range plans {
						for _, r := range p.rows {
							if r == off {
								for _, pd := range p.deltas {
									if pd == d {
										okDelta = true
									}
								}
							}
						}
					}
					if !okDelta {
						add("chain", fmt.Sprintf("chunk %d commit %d: emitted x=%d at row %d is not merge(previous emitted value %d, a delta of a writer of that row): the logger order is not the apply order, or a merge was lost", sc.chunk, sc.id, xn, off, cur[off]), "")
						break chainLoop
					}
					cur[off] = xn
				}
			}
			finalBad := ""
			c.Query(func(txn *column.Txn) error {
				for _, r := range rows {
					txn.QueryAt(r, func(row column.Row) error {
						if x, _ := row.Int64("x"); x != cur[r] {
							finalBad = fmt.Sprintf("row %d: x=%d but folding the emitted commits in logger order gives %d", r, x, cur[r])
						}
						return nil
					})
				}
				return nil
			})
			if finalBad != "" && !containsStr(fcls, "chain") {
				add("chain", finalBad, "")
			}
			// C06: a replica fed the stream converges
			column.VerifSetYield(nil)
			rep := newSchedColl(nil)
			insertMarkers(rep, rows...)
			rep.Query(func(txn *column.Txn) error {
				for _, r := range rows {
					txn.QueryAt(r, func(row column.Row) error {
						row.SetInt64("x", 1)
						row.SetInt64("y", 0)
						row.SetInt64("a", 0)
						row.SetInt64("b", 0)
						return nil
					})
				}
				return nil
			})
			rerr := lg.replayInto(rep)
			if rerr != nil {
				add("replica", "replaying the stream failed: "+rerr.Error(), "")
			}
			pd, rd := dumpRows(c, schedCols), dumpRows(rep, schedCols)
			rep.Close()
			if rerr == nil && pd != rd {
				// finding D16: channel logger + multi-chunk transaction + foreign commit in between
				known := ""
				if logKind == "channel" {
					multi := false
					for _, p := range plans {
						chunks := map[uint32]bool{}
						for _, r := range p.rows {
							chunks[r>>14] = true
						}
						if len(chunks) > 1 {
							multi = true
						}
					}
					if multi {
						known = "D16"
					}
				}
				add("replica", fmt.Sprintf("replica differs from the quiescent primary\n   primary: %s\n   replica: %s", clip(pd, 300), clip(rd, 300)), known)
			}
			if len(fcls) == 0 {
				return "", "", ""
			}
			known := fknown[0]
			for _, k := range fknown {
				if k != known {
					known = ""
				}
			}
			return strings.Join(fcls, ","), strings.Join(fmsg, " || "), known
		}
		return check, func() { c.Close() }
	}}
}

// scenarioSnapshot: a snapshot taken while writers commit; restore must equal, per chunk, the
// primary after a prefix of the commits applied to that chunk (C08)
func scenarioSnapshot(name string, nWriters, txns int, rowsPerWriter [][]uint32) scenario {
	return scenarioSnapshotOpt(name, nWriters, txns, rowsPerWriter, false, false)
}

// scenarioSnapshotMarkers: a snapshot beside ONE writer that inserts, deletes and merges a shrinking string, one
// committed transaction after the other. With a single sequential writer the states the collection goes through
// are totally ordered; the restored collection must be one of them — between what was acknowledged before the
// snapshot began and what had started when it returned — row for row and value for value.
func scenarioSnapshotMarkers(name string) scenario {
	return scenario{name: name, build: func(s *scheduler) (func(*scheduler) (string, string, string), func()) {
		mk := func() *column.Collection {
			c := column.NewCollection(column.Options{Capacity: 64, Vacuum: 24 * time.Hour})
			c.CreateColumn("a", column.ForInt64())
			c.CreateColumn("s", column.ForString(column.WithMerge(func(v, d string) string {
				if len(d) > 2 {
					return d[len(d)-2:] // the result is shorter than the delta
				}
				return v + d
			})))
			return c
		}
		c := mk()
		column.VerifSetYield(nil)
		insertMarkers(c, 0, 1)
		for _, r := range []uint32{0, 1} {
			c.QueryAt(r, func(row column.Row) error { row.SetInt64("a", 0); row.SetString("s", "init"); return nil })
		}
		dump := func(c *column.Collection) string {
			var parts []string
			c.Query(func(txn *column.Txn) error {
				return txn.Range(func(idx uint32) {
					txn.QueryAt(idx, func(r column.Row) error {
						a, okA := r.Int64("a")
						sv, okS := r.String("s")
						parts = append(parts, fmt.Sprintf("%d{a=%d/%v,s=%s/%v}", idx, a, okA, sv, okS))
						return nil
					})
				})
			})
			return strings.Join(parts, " ")
		}
		states := []string{dump(c)}
		column.VerifSetYield(s.yield)
		var acked, started int64
		var snap bytes.Buffer
		var snapErr error
		var ackAtStart, startedAtEnd int64
		s.spawn("writer", func() {
			var ins1 uint32
			steps := []func(){
				func() {
					ins1, _ = c.Insert(func(row column.Row) error { row.SetInt64("a", 11); row.SetString("s", "first"); return nil })
				},
				func() {
					c.QueryAt(0, func(row column.Row) error { row.MergeString("s", "abcdef"); row.SetInt64("a", 1); return nil })
				},
				func() { c.Insert(func(row column.Row) error { row.SetInt64("a", 22); return nil }) },
				func() { c.DeleteAt(ins1) },
				func() { c.QueryAt(1, func(row column.Row) error { row.MergeString("s", "uvwxyz"); return nil }) },
			}
			for _, st := range steps {
				atomic.AddInt64(&started, 1)
				st()
				// the state after this commit (taken by the writer itself, outside the scheduler's yield points)
				column.VerifSetYield(nil)
				states = append(states, dump(c))
				column.VerifSetYield(s.yield)
				atomic.AddInt64(&acked, 1)
			}
		})
		s.spawn("snapshot", func() {
			ackAtStart = atomic.LoadInt64(&acked)
			snapErr = c.Snapshot(&snap)
			startedAtEnd = atomic.LoadInt64(&started)
		})
		check := func(s *scheduler) (string, string, string) {
			column.VerifSetYield(nil)
			if snapErr != nil {
				return "snapfail", "Snapshot failed beside a writer: " + snapErr.Error(), ""
			}
			q := mk()
			defer q.Close()
			if err := q.Restore(bytes.NewReader(snap.Bytes())); err != nil {
				return "cut", "Restore of the snapshot failed: " + err.Error(), ""
			}
			got := dump(q)
			for k := int(ackAtStart); k <= int(startedAtEnd) && k < len(states); k++ {
				if states[k] == got {
					return "", "", ""
				}
			}
			// an insert reserved but not yet committed shows as an empty row: finding D17
			known := ""
			if strings.Contains(got, "a=0/false,s=/false") {
				known = "D17"
			}
			return "cut", fmt.Sprintf("the restored collection [%s] equals none of the states the primary went through between the %d commits acknowledged before the snapshot began and the %d started when it returned: %s", got, ackAtStart, startedAtEnd, strings.Join(states, " | ")), known
		}
		return check, func() { c.Close() }
	}}
}

// scenarioSnapshotEarlyMarkers: no scheduling at all — the commits are made from inside the snapshot's own yield points:
// an insert and a delete right after the recorder was installed (they end up in the chunk states AND in the recorded log,
// and Restore must skip them by id), another insert and a delete after the chunks were written (they must be replayed)
func scenarioSnapshotEarlyMarkers(name string) scenario {
	return scenario{name: name, build: func(s *scheduler) (func(*scheduler) (string, string, string), func()) {
		mk := func() *column.Collection {
			c := column.NewCollection(column.Options{Capacity: 64, Vacuum: 24 * time.Hour})
			c.CreateColumn("a", column.ForInt64())
			return c
		}
		dump := func(c *column.Collection) string {
			var parts []string
			c.Query(func(txn *column.Txn) error {
				return txn.Range(func(idx uint32) {
					txn.QueryAt(idx, func(r column.Row) error {
						a, ok := r.Int64("a")
						parts = append(parts, fmt.Sprintf("%d{a=%d/%v}", idx, a, ok))
						return nil
					})
				})
			})
			return strings.Join(parts, " ")
		}
		c := mk()
		column.VerifSetYield(nil)
		insertMarkers(c, 0, 1, 16384)
		for _, r := range []uint32{0, 1, 16384} {
			c.QueryAt(r, func(row column.Row) error { row.SetInt64("a", int64(r)); return nil })
		}
		var early, late uint32
		column.VerifSetYield(func(p string) {
			switch p {
			case "s:opened":
				early, _ = c.Insert(func(row column.Row) error { row.SetInt64("a", 100); return nil })
				c.DeleteAt(1)
				c.QueryAt(16384, func(row column.Row) error { row.MergeInt64("a", 5); return nil })
			case "s:written":
				late, _ = c.Insert(func(row column.Row) error { row.SetInt64("a", 200); return nil })
				c.DeleteAt(early)
				c.QueryAt(16384, func(row column.Row) error { row.MergeInt64("a", 7); return nil })
			}
		})
		var snap bytes.Buffer
		snapErr := c.Snapshot(&snap)
		column.VerifSetYield(s.yield)
		_ = late
		want := dump(c)
		check := func(s *scheduler) (string, string, string) {
			column.VerifSetYield(nil)
			if snapErr != nil {
				return "snapfail", "Snapshot failed: " + snapErr.Error(), ""
			}
			q := mk()
			defer q.Close()
			if err := q.Restore(bytes.NewReader(snap.Bytes())); err != nil {
				return "cut", "Restore of the snapshot failed: " + err.Error(), ""
			}
			if got := dump(q); got != want {
				return "cut", fmt.Sprintf("every commit was made before Snapshot returned, yet the restored collection [%s] differs from the primary [%s] (commits recorded before their chunk was read must be skipped by id, the later ones replayed whole)", got, want), ""
			}
			return "", "", ""
		}
		return check, func() { c.Close() }
	}}
}

// scenarioSnapshotInflight: a snapshot beside an insert whose offset is the first of a new chunk (the
// reservation is in the fill list, the chunk is not allocated until the insert commits; defect D18)
func scenarioSnapshotInflight(name string) scenario {
	return scenario{name: name, build: func(s *scheduler) (func(*scheduler) (string, string, string), func()) {
		c := newSchedColl(nil)
		column.VerifSetYield(nil)
		all := make([]uint32, 16384)
		for i := range all {
			all[i] = uint32(i)
		}
		insertMarkers(c, all...)
		column.VerifSetYield(s.yield)
		var snap bytes.Buffer
		var snapErr, insErr error
		var at uint32
		s.spawn("inserter", func() {
			at, insErr = c.Insert(func(row column.Row) error { row.SetInt64("a", 1); row.MergeInt64("y", 1); return nil })
		})
		s.spawn("snapshot", func() { snapErr = c.Snapshot(&snap) })
		check := func(s *scheduler) (string, string, string) {
			column.VerifSetYield(nil)
			if snapErr != nil {
				return "snapfail", "Snapshot failed beside an in-flight insert: " + snapErr.Error(), ""
			}
			if insErr != nil || at != 16384 {
				return "snapfail", fmt.Sprintf("the insert beside the snapshot failed or landed at %d (err=%v)", at, insErr), ""
			}
			q := newSchedColl(nil)
			defer q.Close()
			if err := q.Restore(bytes.NewReader(snap.Bytes())); err != nil {
				return "cut", "Restore of the snapshot failed: " + err.Error(), ""
			}
			if n := q.Count(); n != 16384 && n != 16385 {
				// an empty row for the in-flight reservation is finding D17; a different count is not
				return "cut", fmt.Sprintf("restored %d rows; the primary held 16384 before and 16385 after the insert", n), ""
			}
			return "", "", ""
		}
		return check, func() { c.Close() }
	}}
}

// hooked: the writers also store into the hooked column "h" between a and y, so they can be parked in
// the middle of a commit (latch held, a stored, y not yet); grow: one more thread allocates a new chunk
// and is parked between the growth of two columns
func scenarioSnapshotOpt(name string, nWriters, txns int, rowsPerWriter [][]uint32, hooked, grow bool) scenario {
	return scenario{name: name, build: func(s *scheduler) (func(*scheduler) (string, string, string), func()) {
		lg := &streamLogger{kind: "log"}
		var c *column.Collection
		var hc *hookCol
		if hooked || grow {
			hc = &hookCol{Column: column.ForInt64()}
			c = newSchedCollHooked(lg, hc)
		} else {
			c = newSchedColl(lg)
		}
		var all []uint32
		for _, rs := range rowsPerWriter {
			all = append(all, rs...)
		}
		sort.Slice(all, func(a, b int) bool { return all[a] < all[b] })
		column.VerifSetYield(nil)
		insertMarkers(c, all...)
		c.Query(func(txn *column.Txn) error {
			for _, r := range all {
				txn.QueryAt(r, func(row column.Row) error { row.SetInt64("a", 0); row.SetInt64("y", 0); return nil })
			}
			return nil
		})
		lg.mu.Lock()
		lg.stream = nil
		lg.mu.Unlock()
		column.VerifSetYield(s.yield)
		if hc != nil {
			hc.s = s
		}
		done := make([]int64, nWriters)    // commits acknowledged per writer
		started := make([]int64, nWriters) // commits started per writer
		var ackAtStart, startedAtEnd []int64
		var snap bytes.Buffer
		var snapErr error
		for wi := 0; wi < nWriters; wi++ {
			wi := wi
			s.spawn(fmt.Sprintf("writer%d", wi), func() {
				for k := 1; k <= txns; k++ {
					atomic.AddInt64(&started[wi], 1)
					c.Query(func(txn *column.Txn) error {
						for _, r := range rowsPerWriter[wi] {
							txn.QueryAt(r, func(row column.Row) error {
								row.SetInt64("a", int64(k)) // sequence number of this writer's commit
								if hooked {
									row.SetAny("h", int64(k))
								}
								row.MergeInt64("y", 1)
								return nil
							})
						}
						return nil
					})
					atomic.AddInt64(&done[wi], 1)
				}
			})
		}
		if grow {
			s.spawn("grower", func() {
				top := uint32(3 * 16384)
				insertMarkers(c, top)
				c.QueryAt(top, func(row column.Row) error { row.SetInt64("a", 1); row.MergeInt64("y", 1); return nil })
			})
		}
		s.spawn("snapshot", func() {
			for i := range done {
				ackAtStart = append(ackAtStart, atomic.LoadInt64(&done[i]))
			}
			snapErr = c.Snapshot(&snap)
			for i := range started {
				startedAtEnd = append(startedAtEnd, atomic.LoadInt64(&started[i]))
			}
		})
		check := func(s *scheduler) (string, string, string) {
			if snapErr != nil {
				return "snapfail", "Snapshot failed under concurrent writers: " + snapErr.Error(), ""
			}
			column.VerifSetYield(nil)
			if hc != nil {
				hc.s = nil
			}
			q := newSchedColl(nil)
			if hc != nil {
				q.Close()
				q = newSchedCollHooked(nil, nil)
			}
			defer q.Close()
			if err := q.Restore(bytes.NewReader(snap.Bytes())); err != nil {
				return "cut", "Restore of the snapshot failed: " + err.Error(), ""
			}
			// per chunk: the restored sequence numbers must be those after a prefix of the chunk's commits (logger order = apply order)
			for wi := 0; wi < nWriters; wi++ {
				for _, r := range rowsPerWriter[wi] {
					var a, y int64
					q.QueryAt(r, func(row column.Row) error { a, _ = row.Int64("a"); y, _ = row.Int64("y"); return nil })
					if a != y {
						return "cut", fmt.Sprintf("restored row %d: sequence column a=%d but merge counter y=%d — a commit was applied partially, twice or out of order", r, a, y), ""
					}
					if a < ackAtStart[wi] {
						return "cut", fmt.Sprintf("restored row %d reflects %d commits of writer %d, but %d were acknowledged before Snapshot began", r, a, wi, ackAtStart[wi]), ""
					}
					if a > startedAtEnd[wi] {
						return "cut", fmt.Sprintf("restored row %d reflects %d commits of writer %d, but only %d had started when Snapshot returned", r, a, wi, startedAtEnd[wi]), ""
					}
				}
			}
			// prefix closure per chunk over the logger order
			byChunk := map[uint32][]streamCommit{}
			for _, sc := range lg.stream {
				byChunk[sc.chunk] = append(byChunk[sc.chunk], sc)
			}
			for ch, cs := range byChunk {
				// restored value per row of the chunk
				rest := map[uint32]int64{}
				for wi := 0; wi < nWriters; wi++ {
					for _, r := range rowsPerWriter[wi] {
						if r>>14 == ch {
							q.QueryAt(r, func(row column.Row) error { rest[r], _ = row.Int64("a"); return nil })
						}
					}
				}
				// find a prefix of cs whose last a-value per row equals rest
				cur := map[uint32]int64{}
				for r := range rest {
					cur[r] = 0
				}
				match := func() bool {
					for r, v := range rest {
						if cur[r] != v {
							return false
						}
					}
					return true
				}
				found := match()
				for _, sc := range cs {
					for _, p := range sc.puts["a"] {
						cur[uint32(p[0])] = int64(p[1])
					}
					if match() {
						found = true
					}
				}
				if !found {
					return "cut", fmt.Sprintf("chunk %d: the restored state %v equals the primary after no prefix of the %d commits applied to that chunk", ch, rest, len(cs)), ""
				}
			}
			return "", "", ""
		}
		return check, func() { c.Close() }
	}}
}

// scenarioIndexBackfill: CreateIndex beside a writer of the indexed column (C03 under concurrency, D24): the
// back-fill is parked after it has read a chunk of the column (hook column) and before it applies it
func scenarioIndexBackfill(name string) scenario {
	return scenario{name: name, build: func(s *scheduler) (func(*scheduler) (string, string, string), func()) {
		hc := &hookCol{Column: column.ForInt64()}
		c := newSchedCollHooked(nil, hc)
		column.VerifSetYield(nil)
		rows := []uint32{0, 1, 16384}
		insertMarkers(c, rows...)
		for _, r := range rows {
			c.QueryAt(r, func(row column.Row) error { row.SetAny("h", int64(0)); return nil })
		}
		column.VerifSetYield(s.yield)
		hc.s = s
		s.spawn("indexer", func() {
			c.CreateIndex("ix", "h", func(r column.Reader) bool { return r.Int() > 5 })
		})
		s.spawn("writer", func() {
			c.QueryAt(0, func(row column.Row) error { row.SetAny("h", int64(10)); return nil })
			c.QueryAt(16384, func(row column.Row) error { row.SetAny("h", int64(20)); return nil })
		})
		check := func(s *scheduler) (string, string, string) {
			column.VerifSetYield(nil)
			hc.s = nil
			var got, want []uint32
			c.Query(func(txn *column.Txn) error { return txn.With("ix").Range(func(idx uint32) { got = append(got, idx) }) })
			for _, r := range rows {
				c.QueryAt(r, func(row column.Row) error {
					if v, ok := row.Any("h"); ok && v.(int64) > 5 {
						want = append(want, r)
					}
					return nil
				})
			}
			if fmt.Sprint(got) != fmt.Sprint(want) {
				return "index", fmt.Sprintf("all threads finished: index h>5 selects rows %v but the rows whose value satisfies the rule are %v", got, want), ""
			}
			return "", "", ""
		}
		return check, func() { c.Close() }
	}}
}

// scenarioSortBackfill: CreateSortIndex beside a writer of the indexed string column (C16 when the index is created
// after the data, under concurrency): the back-fill is parked after it has read a chunk; the writer overwrites a row
// of a chunk already back-filled and one of a chunk still to come. Afterwards Ascend must visit every row holding a
// value, in the order of the values now stored.
func scenarioSortBackfill(name string) scenario {
	return scenario{name: name, build: func(s *scheduler) (func(*scheduler) (string, string, string), func()) {
		hc := &hookCol{Column: column.ForString()}
		c := newSchedCollHooked(nil, hc)
		column.VerifSetYield(nil)
		rows := []uint32{0, 1, 16384, 16385}
		insertMarkers(c, rows...)
		for i, r := range rows {
			c.QueryAt(r, func(row column.Row) error { row.SetAny("h", []string{"m", "c", "k", "e"}[i]); return nil })
		}
		column.VerifSetYield(s.yield)
		hc.s = s
		s.spawn("indexer", func() { c.CreateSortIndex("sx", "h") })
		s.spawn("writer", func() {
			c.QueryAt(0, func(row column.Row) error { row.SetAny("h", "a"); return nil })
			c.QueryAt(16385, func(row column.Row) error { row.SetAny("h", "z"); return nil })
		})
		check := func(s *scheduler) (string, string, string) {
			column.VerifSetYield(nil)
			hc.s = nil
			var got []uint32
			var vals []string
			err := c.Query(func(txn *column.Txn) error {
				return txn.Ascend("sx", func(idx uint32) {
					got = append(got, idx)
					v, _ := txn.Any("h").Get()
					vals = append(vals, fmt.Sprint(v))
				})
			})
			if err != nil {
				return "sorted", "all threads finished: Ascend over the new sorted index fails: " + err.Error(), ""
			}
			if len(got) != len(rows) {
				return "sorted", fmt.Sprintf("all threads finished: Ascend visits rows %v (values %v); %d rows hold a value", got, vals, len(rows)), ""
			}
			for i := 1; i < len(vals); i++ {
				if vals[i-1] > vals[i] {
					return "sorted", fmt.Sprintf("all threads finished: Ascend is not ordered by the values now stored: rows %v hold %v", got, vals), ""
				}
			}
			return "", "", ""
		}
		return check, func() { c.Close() }
	}}
}

// scenarioInserters: concurrent inserts / deletes (C11), with an observer (C02 / finding D17)
func scenarioInserters(name string, nIns, perThread int, withDeleter bool) scenario {
	return scenario{name: name, build: func(s *scheduler) (func(*scheduler) (string, string, string), func()) {
		c := newSchedColl(nil)
		column.VerifSetYield(nil)
		for i := 0; i < 6; i++ {
			c.Insert(func(r column.Row) error { r.SetInt64("a", -1); r.SetInt64("b", -1); return nil })
		}
		column.VerifSetYield(s.yield)
		var mu sync.Mutex
		got := map[uint32]int64{}
		dup := ""
		var nextTag int64
		for t := 0; t < nIns; t++ {
			s.spawn(fmt.Sprintf("inserter%d", t), func() {
				for k := 0; k < perThread; k++ {
					tag := atomic.AddInt64(&nextTag, 1)
					idx, _ := c.Insert(func(r column.Row) error { r.SetInt64("a", tag); r.SetInt64("b", tag); return nil })
					mu.Lock()
					if old, ok := got[idx]; ok {
						dup = fmt.Sprintf("two inserts (tags %d and %d) received offset %d", old, tag, idx)
					}
					got[idx] = tag
					mu.Unlock()
				}
			})
		}
		deleted := map[uint32]bool{}
		if withDeleter {
			s.spawn("deleter", func() {
				for _, idx := range []uint32{1, 3} {
					if c.DeleteAt(idx) {
						mu.Lock()
						deleted[idx] = true
						// an offset freed by a committed delete may legitimately be handed out again
						delete(got, idx)
						mu.Unlock()
					}
				}
			})
		}
		sawPhantom := false
		s.spawn("observer", func() {
			for k := 0; k < 2; k++ {
				n := 0
				empty := 0
				c.Query(func(txn *column.Txn) error {
					// read through the cursor: a nested QueryAt inside Range would take a second read latch on
					// the same shard and can deadlock against a waiting writer (observation O3)
					rd := txn.Int64("a")
					return txn.Range(func(idx uint32) {
						n++
						if _, ok := rd.Get(); !ok {
							empty++
						}
					})
				})
				if empty > 0 {
					sawPhantom = true
				}
			}
		})
		check := func(s *scheduler) (string, string, string) {
			if dup != "" && !withDeleter {
				return "collide", dup, ""
			}
			// every inserted row must hold exactly its own tag in both columns
			bad := ""
			live := 0
			c.Query(func(txn *column.Txn) error {
				return txn.Range(func(idx uint32) {
					live++
					txn.QueryAt(idx, func(r column.Row) error {
						a, _ := r.Int64("a")
						b, _ := r.Int64("b")
						if a != b {
							bad = fmt.Sprintf("row %d holds a=%d b=%d: two inserts wrote to the same offset", idx, a, b)
						}
						return nil
					})
				})
			})
			if bad != "" {
				return "collide", bad, ""
			}
			if c.Count() != live {
				return "count", fmt.Sprintf("all transactions finished: Count()=%d but %d rows are live", c.Count(), live), ""
			}
			want := 6 + nIns*perThread - len(deleted)
			if live != want {
				return "collide", fmt.Sprintf("%d rows are live, expected %d (6 initial + %d inserted − %d deleted): an insert overwrote another row", live, want, nIns*perThread, len(deleted)), ""
			}
			if sawPhantom {
				return "inflight", "an observer iterated a row of an in-flight insert (no values yet)", "D17"
			}
			return "", "", ""
		}
		return check, func() { c.Close() }
	}}
}

// scenarioKeyRace: two transactions InsertKey / UpsertKey the same key (C12; finding D14)
func scenarioKeyRace(name string, upsert bool) scenario {
	return scenario{name: name, build: func(s *scheduler) (func(*scheduler) (string, string, string), func()) {
		c := column.NewCollection(column.Options{Capacity: 64, Vacuum: 24 * time.Hour})
		c.CreateColumn("k", column.ForKey())
		c.CreateColumn("a", column.ForInt64())
		results := make([]error, 2)
		for t := 0; t < 2; t++ {
			t := t
			s.spawn(fmt.Sprintf("keyer%d", t), func() {
				fn := func(r column.Row) error { r.SetInt64("a", int64(t+1)); return nil }
				if upsert {
					results[t] = c.UpsertKey("z", fn)
				} else {
					results[t] = c.InsertKey("z", fn)
				}
			})
		}
		check := func(s *scheduler) (string, string, string) {
			n := 0
			c.Query(func(txn *column.Txn) error {
				return txn.Range(func(idx uint32) {
					txn.QueryAt(idx, func(r column.Row) error {
						if k, ok := r.Key(); ok && k == "z" {
							n++
						}
						return nil
					})
				})
			})
			if n > 1 {
				return "dupkey", fmt.Sprintf("%d live rows hold key z after two concurrent key inserts", n), "D14"
			}
			if n == 0 {
				return "dupkey", "no live row holds key z after two concurrent key inserts", ""
			}
			if !upsert && results[0] == nil && results[1] == nil {
				return "dupkey", "both InsertKey calls succeeded but one row exists", ""
			}
			return "", "", ""
		}
		return check, func() { c.Close() }
	}}
}

// ---------------------------------------------------------------------------------------------

var schedClasses = map[string][]string{
	"C02": {"inflight"},
	"C03": {"index"},
	"C06": {"replica"},
	"C08": {"cut", "snapfail"},
	"C09": {"lost", "chain"},
	"C10": {"torn"},
	"C11": {"collide", "count"},
	"C12": {"dupkey"},
	"C15": {"ids", "chain"},
	"C16": {"sorted"},
	"C18": {},
}

func scenariosFor(prop string, tier string) []scenario {
	r0, r1 := uint32(0), uint32(1)
	b1 := uint32(16384)
	two := []writerPlan{{rows: []uint32{r0}, txns: 1, deltas: []int64{3}}, {rows: []uint32{r0}, txns: 1, deltas: []int64{5}}}
	twoTwice := []writerPlan{{rows: []uint32{r0, r1}, txns: 2, deltas: []int64{3, 7}}, {rows: []uint32{r0}, txns: 2, deltas: []int64{5, 11}}}
	three := []writerPlan{{rows: []uint32{r0}, txns: 1, deltas: []int64{3}}, {rows: []uint32{r0, r1}, txns: 1, deltas: []int64{5}}, {rows: []uint32{r1}, txns: 2, deltas: []int64{9, 13}}}
	multi := []writerPlan{{rows: []uint32{r0, b1}, txns: 1, deltas: []int64{3}}, {rows: []uint32{r0}, txns: 1, deltas: []int64{5}}}
	multi2 := []writerPlan{{rows: []uint32{r0, b1}, txns: 2, deltas: []int64{3, 7}}, {rows: []uint32{b1, r1}, txns: 1, deltas: []int64{5}}}
	var out []scenario
	switch prop {
	case "C15", "C09", "C06":
		out = append(out, scenarioWriters("2w-1row-log", "log", two, false), scenarioWriters("2w-1row-chan", "channel", two, false),
			scenarioWriters("2w-2txn-log", "log", twoTwice, false), scenarioWriters("3w-log", "log", three, false),
			scenarioWriters("2w-multichunk-log", "log", multi, false), scenarioWriters("2w-multichunk-chan", "channel", multi, false),
			scenarioWriters("2w-multichunk2-log", "log", multi2, false))
	case "C10":
		out = append(out, scenarioWriters("2w-reader", "log", two, true), scenarioWriters("2w-reader-2txn", "log", twoTwice, true),
			scenarioWriters("multichunk-reader", "log", multi, true))
	case "C08":
		out = append(out, scenarioSnapshot("snap-2w-1chunk", 2, 2, [][]uint32{{0}, {1}}),
			scenarioSnapshot("snap-2w-shared-row-chunk", 2, 2, [][]uint32{{0, 2}, {1, 3}}),
			scenarioSnapshot("snap-2w-2chunks", 2, 2, [][]uint32{{0, b1}, {1, b1 + 1}}),
			scenarioSnapshot("snap-3w-2chunks", 3, 1, [][]uint32{{0}, {b1}, {1, b1 + 1}}),
			scenarioSnapshotOpt("snap-midcommit", 2, 1, [][]uint32{{0}, {b1}}, true, false),
			scenarioSnapshotOpt("snap-growth", 0, 0, nil, false, true),
			scenarioSnapshotInflight("snap-inflight-insert"),
			scenarioSnapshotMarkers("snap-markers"),
			scenarioSnapshotEarlyMarkers("snap-early-markers"))
	case "C11", "C02":
		out = append(out, scenarioInserters("2ins", 2, 2, false), scenarioInserters("3ins", 3, 1, false), scenarioInserters("2ins-deleter", 2, 2, true))
	case "C03":
		out = append(out, scenarioIndexBackfill("index-backfill"))
	case "C16":
		out = append(out, scenarioSortBackfill("sort-backfill"))
	case "C12":
		out = append(out, scenarioKeyRace("inskey-race", false), scenarioKeyRace("upskey-race", true))
	case "C18":
		out = append(out, scenarioWriters("2w-reader", "log", two, true), scenarioWriters("2w-multichunk2-log", "log", multi2, true),
			scenarioSnapshot("snap-2w-2chunks", 2, 1, [][]uint32{{0, b1}, {1, b1 + 1}}), scenarioInserters("2ins-deleter", 2, 1, true), scenarioKeyRace("upskey-race", true), scenarioIndexBackfill("index-backfill"))
	}
	return out
}

func runSched(rep *Report, replay string) {
	rnd := rand.New(rand.NewSource(rep.Seed))
	classes := map[string]bool{}
	for _, c := range schedClasses[rep.Property] {
		classes[c] = true
	}
	systematic, random := 150, 40
	if rep.Tier == "thorough" {
		systematic, random = 4000, 600
	}
	if v := envInt("VERIF_SCHEDULES"); v > 0 {
		systematic = v
	}
	scs := scenariosFor(rep.Property, rep.Tier)
	if replay != "" {
		lines, err := readReplay(replay)
		if err != nil || len(lines) < 2 {
			fmt.Fprintln(os.Stderr, "bad sched replay")
			return
		}
		name := strings.TrimPrefix(lines[0], "scenario ")
		choices := parseInts(strings.TrimPrefix(lines[1], "choices "))
		for _, sc := range scs {
			if sc.name == name {
				o := runSchedule(sc, choices, nil)
				rep.SchedulesRun++
				rep.Cases++
				if o.fail != "" {
					v := Violation{Property: rep.Property, Kind: "oracle", Clause: fmt.Sprintf("[%s] %s", sc.name, o.fail), Script: lines}
					writeReplay(rep.Property, "sched", &v)
					rep.Violations = append(rep.Violations, v)
				}
			}
		}
		return
	}
	known := map[string]bool{}
	for _, sc := range scs {
		before := map[string]int{}
		for k, v := range rep.Dist {
			before[k] = v
		}
		explore(rep, sc, systematic, random, func(n int) int { return rnd.Intn(n) }, classes)
		for k := range rep.Dist {
			if strings.HasPrefix(k, "known-finding-schedules:") && rep.Dist[k] > before[k] {
				known[strings.TrimPrefix(k, "known-finding-schedules:")] = true
			}
		}
	}
	kf := loadKnown()
	for d := range known {
		for _, e := range kf.Known {
			if e.ID == d && containsStr(e.Properties, rep.Property) {
				rep.KnownFindings = append(rep.KnownFindings, fmt.Sprintf("KNOWN-FINDING: property=%s %s %s (reached by the controlled scheduler)", rep.Property, e.ID, e.What))
			}
		}
	}
	rep.Rule = "controlled-scheduler executions of the real code: worker goroutines park at the verif yield points (before/inside/after the chunk latch, after an insert reservation, between key check and insert, around the snapshot steps, inside reader callbacks); schedules are enumerated depth-first over the choice tree up to a budget, then drawn at random from the seed; distinct = by event trace; every execution is checked by the scenario's implementation-only oracle (stream ids, merge chains, replica, restored cut, torn reads, offset collisions, duplicate keys) and by a deadlock watchdog"
	_ = binary.BigEndian
}

func knownMarker(d string) string {
	switch d {
	case "D16":
		return "replica differs"
	case "D17":
		return "in-flight insert"
	case "D14":
		return "live rows hold key z"
	}
	return "\x00"
}
