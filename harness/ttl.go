package main

import (
	"fmt"
	"sync"
	"sync/atomic"
	"time"

	"github.com/kelindar/column"
)

// ---------------------------------------------------------------------------------------------
// ttl mode (C17): the real vacuum goroutine with short intervals, rows with no / zero / past /
// future / short / extended deadlines, concurrent inserts, extensions and unrelated updates.
// Timing is the runtime's: checks use generous margins; rows whose deadline is within the margin
// of an observation are not judged. The decision itself is compared with the Lean model for every
// row at every observation (clock reading of the observation).
// ---------------------------------------------------------------------------------------------

type ttlRow struct {
	name     string
	idx      uint32
	deadline int64 // expected stored deadline (0 = never); -1 = no value stored
}

func runTTL(rep *Report, replay string) {
	intervals := []time.Duration{time.Millisecond, 5 * time.Millisecond, 20 * time.Millisecond}
	if rep.Tier == "thorough" {
		intervals = append(intervals, 2*time.Millisecond, 50*time.Millisecond, 100*time.Millisecond)
	}
	lines := []string{"new t"}
	want := []string{"ok"}
	addV := func(clause string) {
		if len(rep.Violations) < 5 {
			v := Violation{Property: rep.Property, Kind: "oracle", Clause: clause, Script: []string{clause}}
			writeReplay(rep.Property, "ttl", &v)
			rep.Violations = append(rep.Violations, v)
		}
	}
	for _, iv := range intervals {
		c := column.NewCollection(column.Options{Capacity: 64, Vacuum: iv})
		c.CreateColumn("v", column.ForInt64())
		c.CreateColumn("tag", column.ForInt64())
		short := 120 * time.Millisecond
		margin := 60*time.Millisecond + 4*iv
		start := time.Now()
		var rows []ttlRow
		ins := func(name string, fn func(r column.Row) int64) {
			var d int64
			tag := int64(len(rows) + 100)
			idx, _ := c.Insert(func(r column.Row) error { r.SetInt64("v", 1); r.SetInt64("tag", tag); d = fn(r); return nil })
			rows = append(rows, ttlRow{name, idx, d})
		}
		ins("no-ttl", func(r column.Row) int64 { return -1 })
		ins("ttl-zero", func(r column.Row) int64 { r.SetTTL(0); return 0 })
		ins("ttl-negative", func(r column.Row) int64 { r.SetTTL(-time.Second); return 0 })
		ins("past", func(r column.Row) int64 { d := start.Add(-time.Hour).UnixNano(); r.SetInt64("expire", d); return d })
		ins("future", func(r column.Row) int64 { return r.SetTTL(time.Hour).UnixNano() })
		ins("short", func(r column.Row) int64 { return r.SetTTL(short).UnixNano() })
		ins("short-extended", func(r column.Row) int64 { return r.SetTTL(short).UnixNano() })
		ins("short-reset", func(r column.Row) int64 { return r.SetTTL(short).UnixNano() })
		// extension and reset through the transaction accessor, before the short deadline
		ext := time.Hour
		c.QueryAt(rows[6].idx, func(r column.Row) error { return nil })
		c.Query(func(txn *column.Txn) error {
			// twice in one transaction: both extensions count
			return txn.QueryAt(rows[6].idx, func(r column.Row) error { txn.TTL().Extend(ext); txn.TTL().Extend(ext); return nil })
		})
		rows[6].deadline += 2 * int64(ext)
		c.Query(func(txn *column.Txn) error {
			return txn.QueryAt(rows[7].idx, func(r column.Row) error { txn.TTL().Set(0); return nil })
		})
		rows[7].deadline = 0
		// the same two moves through the Row API: clear a short deadline, and replace a short deadline by a long one
		ins("short-cleared-by-row", func(r column.Row) int64 { return r.SetTTL(short).UnixNano() })
		ins("short-replaced-by-row", func(r column.Row) int64 { return r.SetTTL(short).UnixNano() })
		c.QueryAt(rows[8].idx, func(r column.Row) error { r.SetTTL(0); return nil })
		rows[8].deadline = 0
		c.QueryAt(rows[9].idx, func(r column.Row) error { rows[9].deadline = r.SetTTL(time.Hour).UnixNano(); return nil })
		// concurrent unrelated updates, inserts and extensions
		var stop int32
		var wg sync.WaitGroup
		wg.Add(1)
		go func() {
			defer wg.Done()
			for atomic.LoadInt32(&stop) == 0 {
				for _, r := range rows {
					c.QueryAt(r.idx, func(row column.Row) error { row.MergeInt64("v", 1); return nil })
				}
				idx, _ := c.Insert(func(r column.Row) error { r.SetInt64("v", 9); r.SetInt64("tag", 0); return nil })
				c.DeleteAt(idx)
				time.Sleep(200 * time.Microsecond)
			}
		}()
		observe := func(label string) {
			now := time.Now()
			// a row is alive iff its offset is live and still carries its own tag (an offset freed by the
			// vacuum may be re-used by the concurrent inserter, which stores tag 0)
			liveSet := map[uint32]bool{}
			c.Query(func(txn *column.Txn) error { return txn.Range(func(idx uint32) { liveSet[idx] = true }) })
			for ri, r := range rows {
				alive := false
				var stored int64
				var has bool
				c.QueryAt(r.idx, func(row column.Row) error {
					tg, ok := row.Int64("tag")
					alive = liveSet[r.idx] && ok && tg == int64(ri+100)
					stored, has = row.Int64("expire")
					return nil
				})
				rep.Cases++
				d := r.deadline
				near := d > 0 && absDur(time.Duration(d-now.UnixNano())) < margin
				switch {
				case d <= 0 && !alive:
					addV(fmt.Sprintf("[interval %v, %s] row %q without a deadline was removed by the cleanup", iv, label, r.name))
				case d > 0 && !near && d > now.UnixNano() && !alive:
					addV(fmt.Sprintf("[interval %v, %s] row %q was removed %v before its deadline", iv, label, r.name, time.Duration(d-now.UnixNano())))
				case d > 0 && !near && d < now.UnixNano() && alive:
					addV(fmt.Sprintf("[interval %v, %s] row %q is still present %v after its deadline (interval %v)", iv, label, r.name, time.Duration(now.UnixNano()-d), iv))
				}
				if alive && r.deadline > 0 && has && stored == r.deadline {
					// the reading side of the API must report the same deadline: ExpiresAt exactly, the two TTL
					// readers as the time left (a clock reading apart)
					c.Query(func(txn *column.Txn) error {
						return txn.QueryAt(r.idx, func(row column.Row) error {
							if tg, ok := row.Int64("tag"); !ok || tg != int64(ri+100) {
								return nil // the row went meanwhile
							}
							if cur, ok := row.Int64("expire"); !ok || cur != r.deadline {
								return nil
							}
							t0 := time.Now()
							at, ok1 := txn.TTL().ExpiresAt()
							left1, ok2 := txn.TTL().TTL()
							left2, ok3 := row.TTL()
							t1 := time.Now()
							lo, hi := time.Duration(r.deadline-t1.UnixNano())-time.Millisecond, time.Duration(r.deadline-t0.UnixNano())+time.Millisecond
							switch {
							case !ok1 || at.UnixNano() != r.deadline:
								addV(fmt.Sprintf("[interval %v, %s] row %q: ExpiresAt reports %d (%v), the stored deadline is %d", iv, label, r.name, at.UnixNano(), ok1, r.deadline))
							case !ok2 || left1 < lo || left1 > hi:
								addV(fmt.Sprintf("[interval %v, %s] row %q: txn.TTL().TTL() reports %v (%v), the deadline is %v..%v away", iv, label, r.name, left1, ok2, lo, hi))
							case !ok3 || left2 < lo || left2 > hi:
								addV(fmt.Sprintf("[interval %v, %s] row %q: Row.TTL() reports %v (%v), the deadline is %v..%v away", iv, label, r.name, left2, ok3, lo, hi))
							}
							rep.count("deadline-read-back")
							return nil
						})
					})
				}
				if alive && r.deadline >= 0 && has && stored != r.deadline {
					addV(fmt.Sprintf("[interval %v, %s] row %q stores deadline %d, expected %d", iv, label, r.name, stored, r.deadline))
				}
				if !near {
					rep.DistinctNontrivial++
					present := 0
					if r.deadline >= 0 {
						present = 1
					}
					dl := r.deadline
					if dl < 0 {
						dl = 0
					}
					lines = append(lines, fmt.Sprintf("vacuum %d %d %s", now.UnixNano(), present, hexOf(be(uint64(dl), 8))))
					if alive {
						want = append(want, "keep")
					} else {
						want = append(want, "delete")
					}
				}
			}
		}
		// "a few cleanup intervals": the first observation waits for three intervals and a little more
		time.Sleep(3*iv + 25*time.Millisecond)
		observe("early")
		// a second wave of TTL writes on the by now well-used collection, through each writer: the deadline stored
		// must be the clock reading of the call plus the TTL (bounds taken around the call), whatever
		// the transaction object has been used for before
		for k := 0; k < 6; k++ {
			ttl := time.Duration(k+1) * time.Hour
			var got int64
			var idx uint32
			t0 := time.Now()
			switch k % 3 {
			case 0:
				idx, _ = c.Insert(func(r column.Row) error { got = r.SetTTL(ttl).UnixNano(); r.SetInt64("tag", 0); return nil })
			case 1:
				c.Query(func(txn *column.Txn) error {
					var err error
					idx, err = txn.Insert(func(r column.Row) error { txn.TTL().Set(ttl); r.SetInt64("tag", 0); return nil })
					return err
				})
			default:
				// on an existing row, through the Row API
				idx, _ = c.Insert(func(r column.Row) error { r.SetInt64("tag", 0); return nil })
				t0 = time.Now()
				c.QueryAt(idx, func(r column.Row) error { r.SetTTL(ttl); return nil })
			}
			t1 := time.Now()
			var stored int64
			c.QueryAt(idx, func(r column.Row) error { stored, _ = r.Int64("expire"); return nil })
			// 2 ms of slack for a wall clock being slewed between the readings
			lo, hi := t0.Add(ttl).UnixNano()-int64(2*time.Millisecond), t1.Add(ttl).UnixNano()+int64(2*time.Millisecond)
			if stored < lo || stored > hi {
				addV(fmt.Sprintf("[interval %v] second wave, writer %d: a TTL of %v set between clock readings %d and %d stored the deadline %d, %v outside [%d, %d]", iv, k%3, ttl, t0.UnixNano(), t1.UnixNano(), stored, time.Duration(stored-lo), lo, hi))
			}
			if k%3 == 0 && (got < lo || got > hi) {
				addV(fmt.Sprintf("[interval %v] second wave: SetTTL(%v) returned the expiration time %d, outside [%d, %d]", iv, ttl, got, lo, hi))
			}
			rep.count("second-wave-ttl-write")
			rep.Cases++
		}
		time.Sleep(time.Until(start.Add(short + margin + 5*iv + 40*time.Millisecond)))
		observe("after-short-deadline")
		atomic.StoreInt32(&stop, 1)
		wg.Wait()
		c.Close()
		rep.count(fmt.Sprintf("interval=%v", iv))
		if len(rep.Samples) < 3 {
			rep.Samples = append(rep.Samples, map[string]interface{}{"interval": iv.String(), "rows": []string{"no-ttl", "ttl-zero", "ttl-negative", "past", "future", "short", "short-extended", "short-reset", "short-cleared-by-row", "short-replaced-by-row"}, "short_ttl": short.String(), "margin": margin.String()})
		}
	}
	// writeTTL arithmetic
	for _, ttl := range []int64{-5, 0, 1, 1000000000} {
		lines = append(lines, fmt.Sprintf("writettl 1000 %d", ttl))
		if ttl > 0 {
			want = append(want, fmt.Sprintf("deadline=%d", 1000+ttl))
		} else {
			want = append(want, "deadline=0")
		}
	}
	outs, err := runLean("codec", []Case{{Name: "ttl", Lines: lines}})
	if err != nil {
		rep.Violations = append(rep.Violations, Violation{Property: rep.Property, Kind: "correspondence", Clause: "lean driver failed: " + err.Error()})
	} else if d := firstDiff(want, outs[0]); d >= 0 {
		v := Violation{Property: rep.Property, Kind: "correspondence", Clause: fmt.Sprintf("vacuum decision: implementation %s, model %s for %s", want[d], outs[0][d], lines[d]),
			Script: []string{lines[0], lines[d]}, GoOut: []string{"ok", want[d]}, LeanOut: []string{"ok", outs[0][d]}}
		writeReplay(rep.Property, "ttl", &v)
		rep.Violations = append(rep.Violations, v)
	}
	rep.Lines = len(lines)
	rep.Rule = "the real vacuum goroutine at intervals 1/5/20 ms (thorough: also 2/50/100 ms) over rows with no TTL, TTL 0, negative TTL, a deadline an hour in the past, an hour in the future, a short TTL (120 ms), a short TTL extended by an hour, a short TTL reset to never; concurrent goroutine merging into the same rows, inserting and deleting; two observations per interval (20 ms after start, and after the short deadline + margin); rows whose deadline is within the margin (60 ms + 4 intervals) of an observation are not judged; each judged (row, observation) is also compared with the model's decision for that clock reading; non-trivial = judged observations"
}

func absDur(d time.Duration) time.Duration {
	if d < 0 {
		return -d
	}
	return d
}
