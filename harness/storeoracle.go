package main

import (
	"fmt"
	"strings"
)

// storeOracle returns the implementation-only oracle of a property for store-mode scripts.
func storeOracle(prop string) Oracle {
	return func(c Case, out []string) string {
		for i, o := range out {
			if o == "panic" {
				return fmt.Sprintf("line %d (%s): the implementation panicked", i, clip(c.Lines[i], 80))
			}
			if strings.HasPrefix(o, "panic:") {
				return fmt.Sprintf("line %d: %s", i, clip(o, 120))
			}
		}
		return ""
	}
}
