package main

import (
	"bytes"
	"fmt"
	"math"
	"sort"
	"strconv"
	"strings"
)

// ---------------------------------------------------------------------------------------------
// Implementation-only oracles for store-mode scripts.
//
// specRun interprets a script together with the outputs of the IMPLEMENTATION (never the model's)
// against a tiny reference: rows are a map offset → column → value, a transaction is the list of
// changes it issued, commit applies them in issue order, rollback discards them. Offsets and
// "existed" decisions are taken from the implementation's outputs (they are observable facts);
// that offsets are fresh is checked. Whatever the reference cannot express because the unchanged
// code violates the property there (findings D8–D12, D14, D20, D22) "taints" the case: the
// affected checks are skipped from that point and the finding is counted.
// ---------------------------------------------------------------------------------------------

type specCol struct {
	kind  string
	merge string
}

type specIndex struct {
	col  string
	rule []string
}

type specChange struct {
	what string // ins, set, merge, bool, del, key
	off  uint32
	col  string
	val  []byte
}

type specTxn struct {
	changes     []specChange
	insOK       []uint32
	insFailed   []uint32
	readOnly    bool
	resized     map[string]bool // off|col that had a resizing merge
	keysSet     map[string]int
	filterTaint bool
	cleared     bool
	setup       bool
	selKnown    bool
	sel         map[uint32]bool
	// a DeleteAll ran over a selection this interpreter could not reconstruct (known-finding taint, platform-
	// defined filter, in-flight reservations): what the transaction deletes is unknown
	unknownDeletes bool
}

type specColl struct {
	cols     map[string]specCol
	indexes  map[string]specIndex
	sorted   map[string]string
	trigs    map[string]string // name → column
	keyCol   string
	rows     map[uint32]map[string][]byte
	everHad  map[string]bool
	txns     map[string]*specTxn
	lastDump string
	logger   string
	// a key was written to a dead offset (D10): the key table may hold entries of rows that are
	// not live, and DeleteKey/UpsertKey of such a key touch chunks this interpreter cannot predict
	staleKeys bool
}

type oracleFailure struct {
	class string // values, rollback, index, filter, replica, restore, offsets, keys, emit, sorted, trigger, count
	msg   string
}

var propClasses = map[string][]string{
	"C01": {"values", "panic"},
	"C02": {"rollback", "values", "inflight", "panic"},
	"C03": {"index", "panic"},
	"C04": {"filter", "panic"},
	"C06": {"replica", "panic"},
	"C07": {"restore", "panic"},
	"C08": {"restore", "panic"},
	"C09": {"values", "panic"},
	"C11": {"offsets", "count", "fresh", "panic"},
	"C12": {"keys", "panic"},
	"C15": {"emit", "panic"},
	"C16": {"sorted", "panic"},
	"C17": {"values", "replica", "restore", "panic"},
	"C19": {"trigger", "panic"},
}

func newSpecColl(logger string) *specColl {
	return &specColl{cols: map[string]specCol{"expire": {"int64", ""}}, indexes: map[string]specIndex{}, sorted: map[string]string{},
		trigs: map[string]string{}, rows: map[uint32]map[string][]byte{}, everHad: map[string]bool{}, txns: map[string]*specTxn{}, logger: logger}
}

func zeroOf(kind string) []byte { return make([]byte, numWidth(kind)) }

// specMerge implements the named merge families on byte patterns
func specMerge(c specCol, cur, delta []byte) []byte {
	w := numWidth(c.kind)
	switch {
	case c.kind == "float64":
		a, b := math.Float64frombits(beU(cur)), math.Float64frombits(beU(delta))
		switch c.merge {
		case "delta":
			return delta
		case "dbl":
			return be(math.Float64bits(a+a+b), 8)
		}
		return be(math.Float64bits(a+b), 8)
	case c.kind == "float32":
		a, b := math.Float32frombits(uint32(beU(cur))), math.Float32frombits(uint32(beU(delta)))
		switch c.merge {
		case "delta":
			return delta
		case "dbl":
			return be(uint64(math.Float32bits(a+a+b)), 4)
		}
		return be(uint64(math.Float32bits(a+b)), 4)
	case w > 0:
		a, b := beU(cur), beU(delta)
		var v uint64
		switch c.merge {
		case "delta":
			return delta
		case "dbl":
			v = 2*a + b
		default:
			v = a + b
		}
		return be(v, w) // be() keeps the low w bytes: wrap-around
	case c.kind == "string":
		switch c.merge {
		case "concat":
			return append(append([]byte(nil), cur...), delta...)
		case "keep":
			return cur
		case "tail":
			if len(delta) > 2 {
				return append([]byte(nil), delta[len(delta)-2:]...)
			}
			return append(append([]byte(nil), cur...), delta...)
		}
		return delta
	case c.kind == "record":
		bad := func(b []byte) bool { return len(b) > 0 && b[0] == 0xff }
		if bad(cur) || bad(delta) {
			return cur
		}
		if c.merge == "concat" {
			return append(append([]byte(nil), cur...), delta...)
		}
		return delta
	}
	return delta
}

func isNaNVal(kind string, v []byte) bool {
	switch kind {
	case "float32":
		f := math.Float32frombits(uint32(beU(v)))
		return f != f
	case "float64":
		f := math.Float64frombits(beU(v))
		return f != f
	}
	return false
}

type dumpState struct {
	count, fillwords, live int
	hashed                 bool
	rows                   map[uint32]map[string]string
	order                  []uint32
	idx                    map[string][]uint32
	idxHashed              map[string]bool
	keys                   map[string]uint32
	keysHashed             bool
	sorted                 map[string][][2]string
	commits                string
}

func parseDump(s string) (*dumpState, bool) {
	d := &dumpState{rows: map[uint32]map[string]string{}, idx: map[string][]uint32{}, idxHashed: map[string]bool{}, keys: map[string]uint32{}, sorted: map[string][][2]string{}}
	if !strings.HasPrefix(s, "count=") {
		return nil, false
	}
	section := ""
	for _, f := range strings.Fields(s) {
		switch {
		case strings.HasPrefix(f, "count="):
			d.count, _ = strconv.Atoi(f[6:])
			section = ""
			continue
		case strings.HasPrefix(f, "fillwords="):
			d.fillwords, _ = strconv.Atoi(f[10:])
			continue
		case strings.HasPrefix(f, "live="):
			d.live, _ = strconv.Atoi(f[5:])
			continue
		case strings.HasPrefix(f, "rows="):
			section = "rows"
			f = f[5:]
			if strings.HasPrefix(f, "H") {
				d.hashed = true
				continue
			}
		case strings.HasPrefix(f, "idx:"):
			eq := strings.Index(f, "=")
			section = f[:eq]
			name := f[4:eq]
			f = f[eq+1:]
			d.idx[name] = []uint32{}
			if strings.HasPrefix(f, "H") {
				d.idxHashed[name] = true
				continue
			}
		case strings.HasPrefix(f, "keys="):
			section = "keys"
			f = f[5:]
			if strings.HasPrefix(f, "H") {
				d.keysHashed = true
				continue
			}
		case strings.HasPrefix(f, "sorted:"):
			eq := strings.Index(f, "=")
			section = f[:eq]
			d.sorted[f[7:eq]] = [][2]string{}
			f = f[eq+1:]
			if strings.HasPrefix(f, "H") {
				continue
			}
		case strings.HasPrefix(f, "commits="):
			d.commits = f[8:]
			section = ""
			continue
		}
		if f == "" {
			continue
		}
		switch {
		case section == "rows":
			j := strings.Index(f, "{")
			if j <= 0 {
				continue
			}
			off, _ := strconv.ParseUint(f[:j], 10, 32)
			vals := map[string]string{}
			body := strings.TrimSuffix(f[j+1:], "}")
			if body != "" {
				for _, kv := range strings.Split(body, ",") {
					e := strings.Index(kv, "=")
					if e > 0 {
						vals[kv[:e]] = kv[e+1:]
					}
				}
			}
			d.rows[uint32(off)] = vals
			d.order = append(d.order, uint32(off))
		case strings.HasPrefix(section, "idx:"):
			v, _ := strconv.ParseUint(f, 10, 32)
			d.idx[section[4:]] = append(d.idx[section[4:]], uint32(v))
		case section == "keys":
			e := strings.LastIndex(f, ":")
			v, _ := strconv.ParseUint(f[e+1:], 10, 32)
			d.keys[f[:e]] = uint32(v)
		case strings.HasPrefix(section, "sorted:"):
			e := strings.LastIndex(f, ":")
			d.sorted[section[7:]] = append(d.sorted[section[7:]], [2]string{f[:e], f[e+1:]})
		}
	}
	return d, true
}

// comparable part of a dump: everything except per-collection details (fill length, commit ranks)
func dumpCore(s string) string {
	var out []string
	for _, f := range strings.Fields(s) {
		if strings.HasPrefix(f, "fillwords=") || strings.HasPrefix(f, "commits=") {
			continue
		}
		out = append(out, f)
	}
	return strings.Join(out, " ")
}

func evalRuleOn(rule []string, kind string, v []byte) bool {
	switch rule[0] {
	case "always":
		return true
	case "never":
		return false
	case "bool":
		return true
	case "streq":
		b, _ := unhex(rule[1])
		return bytes.Equal(v, b)
	case "strpfx":
		b, _ := unhex(rule[1])
		return bytes.HasPrefix(v, b)
	}
	p, ok := parsePred(rule[1])
	if !ok {
		return false
	}
	switch rule[0] {
	case "int":
		return p.int(signedOf(v))
	case "uint":
		return p.uint(beU(v))
	case "float":
		if len(v) == 4 {
			return p.float(float64(math.Float32frombits(uint32(beU(v)))))
		}
		return p.float(math.Float64frombits(beU(v)))
	}
	return false
}

func signedOf(v []byte) int64 {
	u := beU(v)
	switch len(v) {
	case 2:
		return int64(int16(u))
	case 4:
		return int64(int32(u))
	}
	return int64(u)
}

func convInt64(kind string, v []byte) (int64, bool) {
	switch kind {
	case "int16", "int32", "int64", "int":
		return signedOf(v), true
	case "uint16", "uint32", "uint64", "uint":
		return int64(beU(v)), true
	}
	return 0, false
}

func convUint64(kind string, v []byte) (uint64, bool) {
	switch kind {
	case "int16", "int32", "int64", "int":
		return uint64(signedOf(v)), true
	case "uint16", "uint32", "uint64", "uint":
		return beU(v), true
	}
	return 0, false
}

func convFloat64(kind string, v []byte) (float64, bool) {
	switch kind {
	case "float32":
		return float64(math.Float32frombits(uint32(beU(v)))), true
	case "float64":
		return math.Float64frombits(beU(v)), true
	case "int16", "int32", "int64", "int":
		return float64(signedOf(v)), true
	case "uint16", "uint32", "uint64", "uint":
		return float64(beU(v)), true
	}
	return 0, false
}

func sortedOffs(m map[uint32]bool) []uint32 {
	var out []uint32
	for o, ok := range m {
		if ok {
			out = append(out, o)
		}
	}
	sort.Slice(out, func(a, b int) bool { return out[a] < out[b] })
	return out
}

func offsList(xs []uint32) string {
	var s []string
	for _, x := range xs {
		s = append(s, strconv.Itoa(int(x)))
	}
	return strings.Join(s, " ")
}

// specRun: see the comment at the top of the file
func specRun(c Case, out []string) (fails []oracleFailure, taints map[string]int) {
	taints = map[string]int{}
	colls := map[string]*specColl{}
	tainted := map[string]bool{} // collection id → value checks disabled
	fail := func(class, f string, a ...interface{}) {
		if len(fails) < 20 {
			fails = append(fails, oracleFailure{class, fmt.Sprintf(f, a...)})
		}
	}
	taint := func(cid, d string) {
		taints[d]++
		tainted[cid] = true
	}
	snapOf := map[string]string{} // snapshot id → dump core of the source at snapshot time ("" unknown)
	snapTaint := map[string]bool{}
	pendingRestore := map[string]string{}
	snapWait := map[string]string{} // collection → snapshot whose expected state is the next dump of the collection
	emittedSince := map[string]int{}
	replicaSynced := false // r has replayed everything p emitted so far
	for i, line := range c.Lines {
		o := out[i]
		if o == "panic" || strings.HasPrefix(o, "panic:") {
			fail("panic", "line %d (%s): the implementation panicked", i, clip(line, 80))
			return
		}
		if o == "dead" || o == "bad-op" {
			continue
		}
		w := strings.Fields(line)
		if len(w) == 0 {
			continue
		}
		if w[0] == "reset" || w[0] == "hash" {
			continue
		}
		if w[0] == "new" {
			lg, _ := kv(w[2:], "logger")
			colls[w[1]] = newSpecColl(lg)
			delete(tainted, w[1])
			continue
		}
		sc, ok := colls[w[0]]
		if !ok || len(w) < 2 {
			continue
		}
		cid := w[0]
		rest := w[1:]
		switch rest[0] {
		case "col":
			if o == "ok" {
				m, _ := kv(rest[3:], "merge")
				if rest[2] == "key" {
					sc.keyCol = rest[1]
				} else {
					sc.cols[rest[1]] = specCol{rest[2], m}
				}
			}
		case "index":
			if o == "ok" {
				sc.indexes[rest[1]] = specIndex{rest[2], rest[3:]}
			}
		case "sortindex":
			if o == "ok" {
				sc.sorted[rest[1]] = rest[2]
			}
		case "trigger":
			if o == "ok" {
				sc.trigs[rest[1]] = rest[2]
			}
		case "dropcol":
			delete(sc.cols, rest[1])
			for _, r := range sc.rows {
				delete(r, rest[1])
			}
		case "dropindex", "droptrigger":
			delete(sc.indexes, rest[1])
			delete(sc.sorted, rest[1])
			delete(sc.trigs, rest[1])
		case "begin":
			sc.txns[rest[1]] = &specTxn{resized: map[string]bool{}, keysSet: map[string]int{}}
		case "rollback":
			t := sc.txns[rest[1]]
			delete(sc.txns, rest[1])
			if t == nil {
				continue
			}
			if len(t.insOK) > 0 {
				taint(cid, "D8")
			}
			if strings.Contains(o, "trig=") && !tainted[cid] {
				fail("trigger", "line %d: a rolled back transaction invoked a trigger: %s", i, clip(o, 120))
			}
			if !strings.HasPrefix(o, "rolledback") {
				fail("rollback", "line %d: rollback answered %s", i, clip(o, 80))
			}
		case "commit":
			t := sc.txns[rest[1]]
			delete(sc.txns, rest[1])
			if t == nil {
				continue
			}
			specCommit(cid, sc, t, o, i, fail, taint, tainted)
		case "dump":
			d, ok := parseDump(o)
			if !ok {
				continue
			}
			if len(sc.txns) == 0 && d.count != d.live {
				fail("count", "line %d: Count()=%d but %d rows are live with no transaction in flight", i, d.count, d.live)
			}
			if want, ok := pendingRestore[cid]; ok {
				delete(pendingRestore, cid)
				if want != "" && dumpCore(o) != want {
					fail("restore", "line %d: the restored collection differs from the original at snapshot time\n   original: %s\n   restored: %s", i, clip(want, 300), clip(dumpCore(o), 300))
				}
			}
			if cid == "r" {
				if p, ok := colls["p"]; ok && p.lastDump != "" && !tainted["p"] && !tainted["r"] && emittedSince["p"] == 0 && replicaSynced {
					if dumpCore(o) != p.lastDump {
						fail("replica", "line %d: the replica differs from the primary\n   primary: %s\n   replica: %s", i, clip(p.lastDump, 300), clip(dumpCore(o), 300))
					}
				}
			}
			if sid, ok := snapWait[cid]; ok {
				delete(snapWait, cid)
				if len(sc.txns) == 0 {
					snapOf[sid] = dumpCore(o)
					snapTaint[sid] = snapTaint[sid] || tainted[cid]
				} else {
					snapOf[sid] = ""
				}
			}
			if cid == "p" {
				sc.lastDump = dumpCore(o)
				emittedSince["p"] = 0
			}
			if !d.hashed && !tainted[cid] && len(sc.txns) == 0 {
				specCompareRows(sc, d, i, fail)
			}
			if !d.hashed && len(sc.txns) == 0 {
				specCheckIndexes(sc, d, i, fail, tainted[cid])
				specCheckSorted(sc, d, i, fail, tainted[cid])
				specCheckKeys(sc, d, i, fail, tainted[cid])
			}
		case "snapshot":
			if len(rest) == 4 && rest[2] == "with" {
				// the open transaction committed while the snapshot was written: judge the commit like any other; the
				// restored collection must equal the primary AFTER it (taken from the dump that follows)
				t := sc.txns[rest[3]]
				delete(sc.txns, rest[3])
				if t != nil && strings.HasPrefix(o, "ok committed") {
					specCommit(cid, sc, t, strings.TrimPrefix(o, "ok "), i, fail, taint, tainted)
					emittedSince[cid]++
					replicaSynced = false
					snapOf[rest[1]] = "?"
					snapWait[cid] = rest[1]
					snapTaint[rest[1]] = tainted[cid]
				} else {
					snapOf[rest[1]] = ""
				}
				continue
			}
			if o == "ok" {
				if len(sc.txns) == 0 {
					snapOf[rest[1]] = "?" // filled by the dump that the generator always emits before
					if sc.lastDump != "" && emittedSince[cid] == 0 {
						snapOf[rest[1]] = sc.lastDump
					}
				} else {
					snapOf[rest[1]] = ""
				}
				snapTaint[rest[1]] = tainted[cid]
			}
		case "restore":
			if o != "ok" && !strings.HasPrefix(o, "ok ") {
				fail("restore", "line %d: Restore of a snapshot failed: %s", i, o)
				continue
			}
			want := snapOf[rest[1]]
			if want == "?" || snapTaint[rest[1]] {
				want = ""
			}
			pendingRestore[cid] = want
			// the restored collection now holds what the source held
			if src, ok := colls["p"]; ok {
				sc.rows = map[uint32]map[string][]byte{}
				for off, r := range src.rows {
					nr := map[string][]byte{}
					for k, v := range r {
						nr[k] = v
					}
					sc.rows[off] = nr
				}
				if snapTaint[rest[1]] || tainted["p"] {
					tainted[cid] = true
				}
			}
		case "replay":
			if !strings.HasPrefix(o, "replayed=") {
				fail("replica", "line %d: Replay failed: %s", i, o)
			}
			if cid == "r" && rest[1] == "p" {
				replicaSynced = strings.HasPrefix(o, "replayed=")
			}
			if src, ok := colls[rest[1]]; ok {
				sc.rows = map[uint32]map[string][]byte{}
				for off, r := range src.rows {
					nr := map[string][]byte{}
					for k, v := range r {
						nr[k] = v
					}
					sc.rows[off] = nr
				}
				if tainted[rest[1]] {
					tainted[cid] = true
				}
			}
		case "sparse":
			for _, x := range rest[1:] {
				if v, err := strconv.ParseUint(x, 10, 32); err == nil {
					if _, ok := sc.rows[uint32(v)]; !ok {
						sc.rows[uint32(v)] = map[string][]byte{}
					}
				}
			}
			if cid == "p" {
				emittedSince["p"]++
				replicaSynced = false
			}
		case "count":
		default:
			t, ok := sc.txns[rest[0]]
			if !ok || len(rest) < 2 {
				continue
			}
			if rest[1] != "select" && cid == "p" {
				emittedSince["p"]++
				replicaSynced = false
			}
			specTxnLine(cid, sc, t, rest[1:], o, i, fail, taint, tainted)
		}
	}
	return
}

func (sc *specColl) liveNow() map[uint32]bool {
	m := map[uint32]bool{}
	for o := range sc.rows {
		m[o] = true
	}
	return m
}

func specTxnLine(cid string, sc *specColl, t *specTxn, toks []string, o string, i int,
	fail func(string, string, ...interface{}), taint func(string, string), tainted map[string]bool) {
	cmd, rest := toks[0], toks[1:]
	outToks := strings.Fields(o)
	nextOut := func(pred func(string) bool) string {
		for k, x := range outToks {
			if pred(x) {
				outToks = append(outToks[:k:k], outToks[k+1:]...)
				return x
			}
		}
		return ""
	}
	addActs := func(off uint32, acts []string, isInsert bool) {
		for _, a := range acts {
			f := strings.Split(a, ":")
			switch f[0] {
			case "set", "merge":
				v, _ := unhex(f[2])
				key := fmt.Sprintf("%d|%s", off, f[1])
				if t.resized[key] {
					taint(cid, "D12")
				}
				if sc.cols[f[1]].kind == "enum" && (string(v) == "e14884" || string(v) == "e28738") {
					// the two strings have the same 32-bit xxh3 hash: the column interns by hash (finding D20)
					k := "enum|" + f[1] + "|" + string(v)
					sc.everHad[k] = true
					if sc.everHad["enum|"+f[1]+"|e14884"] && sc.everHad["enum|"+f[1]+"|e28738"] {
						taint(cid, "D20")
					}
				}
				if f[0] == "merge" {
					col := sc.cols[f[1]]
					if (col.kind == "string" && col.merge != "") || col.kind == "record" {
						t.resized[key] = true // the result's length can differ from the delta's (concat, keep, undecodable record)
					}
				}
				t.changes = append(t.changes, specChange{f[0], off, f[1], v})
			case "bool":
				t.changes = append(t.changes, specChange{"bool", off, f[1], []byte(f[2])})
			case "rowkey":
				// Row.SetKey reports nothing: it takes effect iff no live row holds the key
				v, _ := unhex(f[1])
				if sc.keyOf(v) < 0 {
					t.keysSet[string(v)]++
					if t.keysSet[string(v)] > 1 {
						taint(cid, "D14")
					}
					t.changes = append(t.changes, specChange{"key", off, "", v})
				}
			case "key":
				v, _ := unhex(f[1])
				res := nextOut(func(x string) bool { return x == "set" || x == "dup" })
				resolves := sc.keyOf(v) >= 0
				if !tainted[cid] && res != "" && (res == "dup") != resolves {
					fail("keys", "line %d: SetKey(%s) answered %s but the key %s", i, f[1], res, map[bool]string{true: "is held by a live row", false: "is held by no live row"}[resolves])
				}
				if res == "set" {
					t.keysSet[string(v)]++
					if t.keysSet[string(v)] > 1 {
						taint(cid, "D14")
					}
					t.changes = append(t.changes, specChange{"key", off, "", v})
				}
			}
		}
	}
	switch cmd {
	case "insert":
		acts, failFlag := splitActs(rest)
		off, ok := parseOff(o)
		if !ok {
			return
		}
		// C11: the offset must not be occupied by a live row or an in-flight insert
		if _, liveRow := sc.rows[off]; liveRow && !tainted[cid] {
			fail("fresh", "line %d: insert received offset %d which holds a live row", i, off)
		}
		for tid, other := range sc.txns {
			for _, x := range other.insOK {
				if x == off && (other != t || true) && !tainted[cid] {
					fail("fresh", "line %d: insert received offset %d which is reserved by in-flight insert of %s", i, off, tid)
				}
			}
		}
		if failFlag {
			t.insFailed = append(t.insFailed, off)
			t.changes = append(t.changes, specChange{"insfail", off, "", nil})
			return
		}
		t.insOK = append(t.insOK, off)
		t.changes = append(t.changes, specChange{"ins", off, "", nil})
		addActs(off, acts, true)
	case "at":
		off64, _ := strconv.ParseUint(rest[0], 10, 32)
		acts, _ := splitActs(rest[1:])
		addActs(uint32(off64), acts, false)
		// reads inside the transaction return committed values
		if !tainted[cid] {
			for _, f := range strings.Fields(o) {
				e := strings.Index(f, "=")
				if e <= 0 {
					continue
				}
				col := f[:e]
				if sc2, ok := sc.cols[col]; ok {
					want := "~"
					if r, ok := sc.rows[uint32(off64)]; ok {
						if v, ok := r[col]; ok {
							want = hexOf(v)
							if sc2.kind == "bool" {
								want = "1"
							}
							if sc2.kind == "record" && len(v) > 0 && v[0] == 0xff {
								want = "~"
							}
						}
					}
					if sc2.kind == "bool" && want == "~" {
						want = "0"
					}
					if f[e+1:] != want && !isNaNField(sc2.kind, want) {
						fail("inflight", "line %d: read of %s at %d inside a transaction returned %s, committed value is %s", i, col, off64, f[e+1:], want)
					}
				}
			}
		}
	case "del":
		off64, _ := strconv.ParseUint(rest[0], 10, 32)
		if o == "true" {
			t.changes = append(t.changes, specChange{"del", uint32(off64), "", nil})
		}
	case "inskey", "upskey", "qkey":
		key, _ := unhex(rest[0])
		acts, failFlag := splitActs(rest[1:])
		exists := sc.keyOf(key)
		switch {
		case strings.HasPrefix(o, "err:exists"):
			if exists < 0 && !tainted[cid] && sc.keyCol != "" {
				fail("keys", "line %d: InsertKey(%s) refused although no live row holds the key", i, rest[0])
			}
		case strings.HasPrefix(o, "err:notfound"):
			if exists >= 0 && !tainted[cid] {
				fail("keys", "line %d: QueryKey(%s) not found although row %d holds the key", i, rest[0], exists)
			}
		case strings.HasPrefix(o, "at="):
			at, _ := strconv.ParseUint(strings.Fields(o)[0][3:], 10, 32)
			if !tainted[cid] && exists != int64(at) {
				fail("keys", "line %d: key %s resolved to row %d, the reference holds it at %d", i, rest[0], at, exists)
			}
			addActs(uint32(at), acts, false)
		case strings.HasPrefix(o, "off="):
			off, _ := parseOff(o)
			if exists >= 0 && !tainted[cid] {
				fail("keys", "line %d: %s(%s) created row %d although row %d already holds the key", i, cmd, rest[0], off, exists)
			}
			if _, liveRow := sc.rows[off]; liveRow && !tainted[cid] {
				fail("fresh", "line %d: keyed insert received offset %d which holds a live row", i, off)
			}
			if failFlag {
				t.insFailed = append(t.insFailed, off)
				t.changes = append(t.changes, specChange{"insfail", off, "", nil})
			} else {
				t.insOK = append(t.insOK, off)
				t.changes = append(t.changes, specChange{"ins", off, "", nil})
				addActs(off, acts, true)
			}
			t.keysSet[string(key)]++
			if t.keysSet[string(key)] > 1 {
				taint(cid, "D14")
			}
			t.changes = append(t.changes, specChange{"key", off, "", key})
		}
	case "delkey":
		key, _ := unhex(rest[0])
		exists := sc.keyOf(key)
		if o == "ok" {
			if exists < 0 && !tainted[cid] {
				fail("keys", "line %d: DeleteKey(%s) succeeded although no live row holds the key", i, rest[0])
			} else if exists >= 0 {
				t.changes = append(t.changes, specChange{"del", uint32(exists), "", nil})
			}
		} else if o == "err:notfound" && exists >= 0 && !tainted[cid] {
			fail("keys", "line %d: DeleteKey(%s) not found although row %d holds the key", i, rest[0], exists)
		}
	case "select":
		specSelect(cid, sc, t, rest, o, i, fail, taint, tainted)
	}
}

func isNaNField(kind, hexv string) bool {
	v, ok := unhex(hexv)
	return ok && isNaNVal(kind, v)
}

func (sc *specColl) keyOf(key []byte) int64 {
	if sc.keyCol == "" {
		return -1
	}
	for off, r := range sc.rows {
		if v, ok := r["\x00key"]; ok && bytes.Equal(v, key) {
			return int64(off)
		}
	}
	return -1
}

func specCommit(cid string, sc *specColl, t *specTxn, o string, i int,
	fail func(string, string, ...interface{}), taint func(string, string), tainted map[string]bool) {
	if !strings.HasPrefix(o, "committed") {
		fail("values", "line %d: commit answered %s", i, clip(o, 80))
		return
	}
	if strings.Contains(o, "!dropped[") {
		fail("trigger", "line %d: a trigger that had been dropped was called: %s", i, clip(o, 160))
	}
	if len(t.insFailed) > 0 {
		taint(cid, "D9")
	}
	// D10: write to and delete of one row, or a write to a row that is not live when it is issued
	del := map[uint32]bool{}
	for _, ch := range t.changes {
		if ch.what == "del" {
			del[ch.off] = true
		}
	}
	insSoFar := map[uint32]bool{}
	for _, ch := range t.changes {
		switch ch.what {
		case "ins":
			insSoFar[ch.off] = true
		case "set", "merge", "bool", "key":
			_, live := sc.rows[ch.off]
			if del[ch.off] || (!live && !insSoFar[ch.off]) {
				taint(cid, "D10")
				if ch.what == "key" {
					sc.staleKeys = true
				}
			}
		}
	}
	// expected trigger events and changed chunks
	chunks := map[uint32]bool{}
	type ev struct {
		trig string
		s    string
	}
	var wantEv = map[string][]string{}
	hasMarker := false
	hasUpdate := false
	// apply in issue order
	for _, ch := range t.changes {
		switch ch.what {
		case "ins":
			if _, ok := sc.rows[ch.off]; !ok {
				sc.rows[ch.off] = map[string][]byte{}
			}
			chunks[ch.off>>14] = true
			hasMarker = true
		case "insfail":
			chunks[ch.off>>14] = true
			hasMarker = true
		case "del":
			delete(sc.rows, ch.off)
			chunks[ch.off>>14] = true
			hasMarker = true
			for tn := range sc.trigs {
				wantEv[tn] = append(wantEv[tn], "") // placeholder: deletions are checked by count
			}
		case "set", "merge":
			col, ok := sc.cols[ch.col]
			chunks[ch.off>>14] = true
			if !ok {
				continue // the column was dropped before the commit
			}
			hasUpdate = true
			r, live := sc.rows[ch.off]
			if !live {
				continue
			}
			key := fmt.Sprintf("%d|%s", ch.off, ch.col)
			if ch.what == "set" {
				r[ch.col] = ch.val
			} else {
				cur, has := r[ch.col]
				if !has {
					if sc.everHad[key] {
						taint(cid, "D11")
					}
					cur = zeroOf(col.kind)
				}
				r[ch.col] = specMerge(col, cur, ch.val)
			}
			sc.everHad[key] = true
		case "bool":
			chunks[ch.off>>14] = true
			if _, ok := sc.cols[ch.col]; !ok {
				continue
			}
			hasUpdate = true
			if r, live := sc.rows[ch.off]; live {
				if string(ch.val) == "1" {
					r[ch.col] = []byte{1}
				} else {
					delete(r, ch.col)
				}
			}
		case "key":
			chunks[ch.off>>14] = true
			hasUpdate = true
			if r, live := sc.rows[ch.off]; live {
				r["\x00key"] = ch.val
			}
		}
	}
	// C15: exactly one commit per changed chunk; nothing when nothing changed
	if sc.logger != "none" && sc.logger != "" {
		want := 0
		if hasMarker || hasUpdate {
			want = len(chunks)
		}
		got := -1
		for _, f := range strings.Fields(o) {
			if strings.HasPrefix(f, "emitted=") {
				got, _ = strconv.Atoi(f[8:])
			}
		}
		if got != want && !sc.staleKeys && !t.unknownDeletes {
			fail("emit", "line %d: the transaction changed %d chunk(s) but %d commit(s) were emitted (%s)", i, want, got, clip(o, 100))
		}
		// ascending chunk order, each once
		for _, f := range strings.Fields(o) {
			if strings.HasPrefix(f, "chunks=") && len(f) > 7 {
				prev := -1
				for _, x := range strings.Split(f[7:], ",") {
					v, _ := strconv.Atoi(x)
					if v <= prev {
						fail("emit", "line %d: emitted chunks are not strictly ascending: %s", i, f)
					}
					if !chunks[uint32(v)] && !sc.staleKeys && !t.unknownDeletes {
						fail("emit", "line %d: a commit was emitted for chunk %d which the transaction did not touch", i, v)
					}
					prev = v
				}
			}
		}
	}
	specCheckTriggers(cid, sc, t, o, i, fail, tainted)
}

// trigger events: exactly one Put event per committed store to the watched column (value = the
// value finally stored) and one Delete event per committed row deletion, per-row issue order
func specCheckTriggers(cid string, sc *specColl, t *specTxn, o string, i int,
	fail func(string, string, ...interface{}), tainted map[string]bool) {
	if len(sc.trigs) == 0 || tainted[cid] {
		return
	}
	got := map[string][]string{}
	if j := strings.Index(o, "trig="); j >= 0 {
		for _, part := range strings.Fields(o[j+5:]) {
			b := strings.Index(part, "[")
			if b <= 0 {
				continue
			}
			body := strings.TrimSuffix(part[b+1:], "]")
			if body != "" {
				got[part[:b]] = strings.Split(body, ",")
			}
		}
	}
	for tn, col := range sc.trigs {
		ccol, isData := sc.cols[col]
		// expected multiset per row: stores to `col` (in issue order, with running values) and deletions
		var wantPuts []string
		nDel := 0
		run := map[uint32][]byte{}
		has := map[uint32]bool{}
		for _, ch := range t.changes {
			switch {
			case ch.what == "del":
				nDel++
			case (ch.what == "set" || ch.what == "merge") && ch.col == col && isData:
				cur, ok := run[ch.off]
				if !ok {
					// value before the transaction is not needed for sets; for merges it is the committed one,
					// which the reference has already overwritten — recompute from the final state is not possible,
					// so merges are checked through the final value only (last event of the row)
					cur = nil
				}
				_ = cur
				if ch.what == "set" {
					run[ch.off] = ch.val
					has[ch.off] = true
					wantPuts = append(wantPuts, fmt.Sprintf("%d:2:%s", ch.off, hexOf(ch.val)))
				} else {
					wantPuts = append(wantPuts, fmt.Sprintf("%d:2:?", ch.off))
				}
			case ch.what == "bool" && ch.col == col:
				if string(ch.val) == "1" {
					wantPuts = append(wantPuts, fmt.Sprintf("%d:2:-", ch.off))
				} else {
					wantPuts = append(wantPuts, fmt.Sprintf("%d:0:-", ch.off))
				}
			}
		}
		_ = ccol
		evs := got[tn]
		// count check
		nPut, nDelGot := 0, 0
		for _, e := range evs {
			f := strings.Split(e, ":")
			if len(f) == 3 && f[1] == "2" {
				nPut++
			} else {
				nDelGot++
			}
		}
		wantDelEvents := nDel
		wantPutEvents := 0
		for _, w := range wantPuts {
			if strings.Contains(w, ":2:") {
				wantPutEvents++
			} else {
				wantDelEvents++
			}
		}
		if nPut != wantPutEvents || nDelGot != wantDelEvents {
			fail("trigger", "line %d: trigger %s on %s saw %d store and %d delete events, the transaction committed %d stores and %d deletions (%s)", i, tn, col, nPut, nDelGot, wantPutEvents, wantDelEvents, clip(o, 160))
			continue
		}
		// per-row order and values of stores; the last store event of a row carries the final value
		perRowWant := map[string][]string{}
		for _, w := range wantPuts {
			f := strings.SplitN(w, ":", 3)
			perRowWant[f[0]] = append(perRowWant[f[0]], f[2])
		}
		perRowGot := map[string][]string{}
		for _, e := range evs {
			f := strings.SplitN(e, ":", 3)
			if len(f) == 3 && (f[1] == "2" || isBoolCol(sc, col)) {
				if !isBoolCol(sc, col) || true {
					perRowGot[f[0]] = append(perRowGot[f[0]], f[2])
				}
			}
		}
		for row, ws := range perRowWant {
			gs := perRowGot[row]
			if isBoolCol(sc, col) {
				continue
			}
			if len(gs) < len(ws) {
				continue
			}
			for k, wv := range ws {
				if wv != "?" && gs[k] != wv {
					fail("trigger", "line %d: trigger %s: store #%d to row %s reported %s, issued %s", i, tn, k, row, gs[k], wv)
				}
			}
			// final value
			off64, _ := strconv.ParseUint(row, 10, 32)
			if r, ok := sc.rows[uint32(off64)]; ok {
				if fv, ok := r[col]; ok && len(gs) > 0 && gs[len(gs)-1] != hexOf(fv) && !isNaNVal(sc.cols[col].kind, fv) {
					fail("trigger", "line %d: trigger %s: the last store reported for row %s is %s, the value finally stored is %s", i, tn, row, gs[len(gs)-1], hexOf(fv))
				}
			}
		}
	}
}

func isBoolCol(sc *specColl, col string) bool { return sc.cols[col].kind == "bool" }

func specCompareRows(sc *specColl, d *dumpState, i int, fail func(string, string, ...interface{})) {
	for off, r := range sc.rows {
		dr, ok := d.rows[off]
		if !ok {
			fail("values", "line %d: row %d was committed but is not live", i, off)
			continue
		}
		for col, v := range r {
			if col == "\x00key" {
				col = sc.keyCol
			}
			kind := sc.cols[col].kind
			want := hexOf(v)
			if kind == "bool" {
				want = "01"
			}
			if kind == "record" && len(v) > 0 && v[0] == 0xff {
				continue
			}
			if col == sc.keyCol || kind != "" {
				if got, ok := dr[col]; !ok {
					fail("values", "line %d: row %d column %s reads absent, last committed value is %s", i, off, col, want)
				} else if got != want && !isNaNVal(kind, v) {
					fail("values", "line %d: row %d column %s reads %s, last committed value is %s", i, off, col, got, want)
				}
			}
		}
		for col, got := range dr {
			if col == sc.keyCol {
				if _, ok := r["\x00key"]; !ok {
					fail("values", "line %d: row %d reads key %s but none was stored since it was inserted", i, off, got)
				}
				continue
			}
			if _, ok := r[col]; !ok {
				fail("values", "line %d: row %d column %s reads %s but nothing was stored since the row was inserted", i, off, col, got)
			}
		}
	}
	for off := range d.rows {
		if _, ok := sc.rows[off]; !ok {
			fail("values", "line %d: row %d is live but was never committed (or was deleted)", i, off)
		}
	}
}

// C03: index bits = live rows whose current value (as dumped by the implementation) satisfies the rule
func specCheckIndexes(sc *specColl, d *dumpState, i int, fail func(string, string, ...interface{}), tainted bool) {
	for name, ix := range sc.indexes {
		if d.idxHashed[name] {
			continue
		}
		bits, ok := d.idx[name]
		if !ok {
			continue
		}
		kind := sc.cols[ix.col].kind
		if ix.col == sc.keyCol {
			kind = "key"
		}
		want := map[uint32]bool{}
		for off, r := range d.rows {
			hv, has := r[ix.col]
			if !has {
				continue
			}
			v, _ := unhex(hv)
			if kind == "bool" {
				want[off] = true
				continue
			}
			if kind == "enum" && tainted {
				continue
			}
			if evalRuleOn(ix.rule, kind, v) {
				want[off] = true
			}
		}
		got := map[uint32]bool{}
		for _, b := range bits {
			got[b] = true
		}
		for off := range want {
			if !got[off] && !tainted {
				fail("index", "line %d: index %s misses row %d whose value satisfies the rule", i, name, off)
			}
		}
		for off := range got {
			if !want[off] && !tainted {
				if _, live := d.rows[off]; live {
					fail("index", "line %d: index %s contains row %d whose current value does not satisfy the rule (or which holds none)", i, name, off)
				} else {
					fail("index", "line %d: index %s contains offset %d which is not a live row", i, name, off)
				}
			}
		}
	}
}

// C16 (state part): the sorted index holds exactly the live rows with a value, ordered by (value, offset)
// order and uniqueness hold unconditionally; agreement with the rows is judged only on histories free of the
// known-finding patterns (a put onto a dead offset, D10, legitimately leaves an entry for a row that is not live)
func specCheckSorted(sc *specColl, d *dumpState, i int, fail func(string, string, ...interface{}), tainted bool) {
	for name, col := range sc.sorted {
		es, ok := d.sorted[name]
		if !ok {
			continue
		}
		seen := map[string]bool{}
		prevK, prevO := "", -1
		for n, e := range es {
			k, _ := unhex(e[0])
			off, _ := strconv.Atoi(e[1])
			if seen[e[1]] {
				fail("sorted", "line %d: sorted index %s holds row %s twice", i, name, e[1])
			}
			seen[e[1]] = true
			if n > 0 && (string(k) < prevK || (string(k) == prevK && off <= prevO)) {
				fail("sorted", "line %d: sorted index %s is not ordered at entry %d", i, name, n)
			}
			prevK, prevO = string(k), off
			if tainted {
				continue
			}
			r, live := d.rows[uint32(off)]
			if !live {
				fail("sorted", "line %d: sorted index %s holds offset %d which is not a live row", i, name, off)
				continue
			}
			if v, has := r[col]; !has || v != e[0] {
				fail("sorted", "line %d: sorted index %s holds row %d under %s but its current value is %s", i, name, off, e[0], v)
			}
		}
		for off, r := range d.rows {
			if _, has := r[col]; has && !seen[strconv.Itoa(int(off))] && !tainted {
				fail("sorted", "line %d: sorted index %s misses row %d which holds a value", i, name, off)
			}
		}
	}
}

// C12 (state part): the key table maps exactly the keys of the live rows to their rows
func specCheckKeys(sc *specColl, d *dumpState, i int, fail func(string, string, ...interface{}), tainted bool) {
	if sc.keyCol == "" || d.keysHashed {
		return
	}
	byKey := map[string][]uint32{}
	for off, r := range d.rows {
		if k, ok := r[sc.keyCol]; ok {
			byKey[k] = append(byKey[k], off)
		}
	}
	for k, offs := range byKey {
		if len(offs) > 1 && !tainted {
			fail("keys", "line %d: key %s is held by %d live rows %v", i, k, len(offs), offs)
		}
		if at, ok := d.keys[k]; !ok {
			if !tainted {
				fail("keys", "line %d: key %s of live row %d does not resolve", i, k, offs[0])
			}
		} else if len(offs) == 1 && at != offs[0] && !tainted {
			fail("keys", "line %d: key %s resolves to %d but row %d holds it", i, k, at, offs[0])
		}
	}
	for k, at := range d.keys {
		if _, ok := byKey[k]; !ok && !tainted {
			fail("keys", "line %d: key %s resolves to %d but no live row holds it", i, k, at)
		}
	}
}

// ---------------------------------------------------------------------------------------------
// filters (C04) and sorted iteration (C16): evaluated over the committed rows of the reference
// ---------------------------------------------------------------------------------------------

func (sc *specColl) bitsOf(name string) (map[uint32]bool, bool) {
	out := map[uint32]bool{}
	if col, ok := sc.cols[name]; ok {
		for off, r := range sc.rows {
			if _, has := r[name]; has {
				_ = col
				out[off] = true
			}
		}
		return out, true
	}
	if name == sc.keyCol && name != "" {
		for off, r := range sc.rows {
			if _, has := r["\x00key"]; has {
				out[off] = true
			}
		}
		return out, true
	}
	if ix, ok := sc.indexes[name]; ok {
		kind := sc.cols[ix.col].kind
		for off, r := range sc.rows {
			v, has := r[ix.col]
			if ix.col == sc.keyCol {
				v, has = r["\x00key"]
				kind = "key"
			}
			if has && (kind == "bool" || evalRuleOn(ix.rule, kind, v)) {
				out[off] = true
			}
		}
		return out, true
	}
	if _, ok := sc.sorted[name]; ok {
		return out, true // a sorted index has no bitmap: selects nothing
	}
	if _, ok := sc.trigs[name]; ok {
		return out, true
	}
	return nil, false
}

func specSelect(cid string, sc *specColl, t *specTxn, rest []string, o string, i int,
	fail func(string, string, ...interface{}), taint func(string, string), tainted map[string]bool) {
	var filters, action []string
	arrow := false
	for _, x := range rest {
		if x == "=>" {
			arrow = true
			continue
		}
		if arrow {
			action = append(action, strings.Split(x, ":")...)
		} else {
			filters = append(filters, x)
		}
	}
	if !t.setup {
		// the selection starts from the rows live at this moment, including reservations of in-flight inserts (D17)
		t.sel = sc.liveNow()
		t.selKnown = true
		for _, other := range sc.txns {
			if len(other.insOK)+len(other.insFailed) > 0 {
				t.selKnown = false // in-flight reservations are visible (finding D17)
			}
		}
	}
	first := !t.setup
	cleared := t.cleared
	defer func() { t.cleared = cleared }()
	for _, f := range filters {
		p := strings.Split(f, ":")
		names := []string{}
		if len(p) > 1 && p[1] != "" {
			names = strings.Split(p[1], ",")
		}
		switch p[0] {
		case "with":
			t.setup = true
			for _, n := range names {
				b, ok := sc.bitsOf(n)
				if !ok {
					cleared = true
					t.sel = map[uint32]bool{}
					continue
				}
				for off := range t.sel {
					if !b[off] {
						delete(t.sel, off)
					}
				}
			}
		case "without":
			t.setup = true
			for _, n := range names {
				if b, ok := sc.bitsOf(n); ok {
					for off := range b {
						delete(t.sel, off)
					}
				}
			}
		case "union", "withunion":
			if p[0] == "withunion" && !first {
				t.setup = true
				if len(names) == 1 {
					b, ok := sc.bitsOf(names[0])
					if !ok {
						cleared = true
						t.sel = map[uint32]bool{}
					} else {
						for off := range t.sel {
							if !b[off] {
								delete(t.sel, off)
							}
						}
					}
				} else {
					u := map[uint32]bool{}
					for _, n := range names {
						if b, ok := sc.bitsOf(n); ok {
							for off := range b {
								u[off] = true
							}
						}
					}
					for off := range t.sel {
						if !u[off] {
							delete(t.sel, off)
						}
					}
				}
				break
			}
			t.setup = true
			if cleared {
				t.filterTaint = true // Union after the selection was truncated: finding D22(b)
				taint(cid, "D22")
			}
			for k, n := range names {
				b, ok := sc.bitsOf(n)
				if first && k == 0 {
					if !ok {
						t.filterTaint = true // first-call Union with a missing first name: D22(a)
						taint(cid, "D22")
						continue
					}
					for off := range t.sel {
						if !b[off] {
							delete(t.sel, off)
						}
					}
					continue
				}
				if ok {
					for off := range b {
						if _, live := sc.rows[off]; live {
							t.sel[off] = true
						}
					}
				}
			}
			if first && len(names) == 0 {
				// Union() with no names: all live rows
			}
		case "int", "uint", "float", "str", "val":
			t.setup = true
			col := p[1]
			sc2, ok := sc.cols[col]
			kind := sc2.kind
			if col == sc.keyCol && col != "" {
				ok, kind = true, "key"
			}
			wrong := !ok
			if p[0] == "str" && !isTextKind(kind) {
				wrong = true
			}
			if (p[0] == "int" || p[0] == "uint" || p[0] == "float") && numWidth(kind) == 0 {
				wrong = true
			}
			if p[0] == "val" && !ok {
				if _, isIdx := sc.indexes[col]; isIdx {
					// WithValue on an index: Value() = Contains
					b, _ := sc.bitsOf(col)
					sp, _ := strPred(p[2])
					for off := range t.sel {
						if !(b[off] && sp([]byte{1})) {
							delete(t.sel, off)
						}
					}
					break
				}
			}
			if wrong {
				cleared = true
				t.sel = map[uint32]bool{}
				break
			}
			for off := range t.sel {
				r := sc.rows[off]
				v, has := r[col]
				if kind == "key" {
					v, has = r["\x00key"]
				}
				keep := false
				if has {
					switch p[0] {
					case "int":
						np, _ := parsePred(p[2])
						if kind == "float32" || kind == "float64" {
							f, _ := convFloat64(kind, v)
							if f != f || f >= 9223372036854775808.0 || f < -9223372036854775808.0 {
								keep = np.int(math.MinInt64)
							} else {
								keep = np.int(int64(f))
							}
						} else {
							x, _ := convInt64(kind, v)
							keep = np.int(x)
						}
					case "uint":
						np, _ := parsePred(p[2])
						if kind == "float32" || kind == "float64" {
							t.filterTaint = true // platform-defined conversion; not generated
						}
						x, _ := convUint64(kind, v)
						keep = np.uint(x)
					case "float":
						np, _ := parsePred(p[2])
						x, _ := convFloat64(kind, v)
						keep = np.float(x)
					case "str":
						sp, _ := strPred(p[2])
						keep = sp(v)
					case "val":
						sp, _ := strPred(p[2])
						if kind == "bool" {
							keep = sp([]byte{1})
						} else if kind == "record" {
							t.filterTaint = true
						} else {
							keep = sp(v)
						}
					}
				}
				if !keep {
					delete(t.sel, off)
				}
			}
		}
		first = false
	}
	t.setup = true
	if tainted[cid] || t.filterTaint || !t.selKnown {
		if len(action) == 1 && action[0] == "deleteall" && o != "deleted=0" {
			t.unknownDeletes = true
			taint(cid, "unknown-selection")
		}
		return
	}
	want := sortedOffs(t.sel)
	switch {
	case len(action) == 1 && action[0] == "count":
		if o != fmt.Sprintf("count=%d", len(want)) {
			fail("filter", "line %d (%s): Count is %s, set algebra over the committed rows gives %d", i, clip(strings.Join(rest, " "), 100), o, len(want))
		}
	case len(action) == 1 && action[0] == "range":
		if strings.HasPrefix(o, "rows=H") {
			return
		}
		if o != "rows="+offsList(want) {
			fail("filter", "line %d (%s): Range visited [%s], set algebra over the committed rows gives [%s]", i, clip(strings.Join(rest, " "), 100), clip(strings.TrimPrefix(o, "rows="), 200), clip(offsList(want), 200))
		}
	case len(action) == 2 && action[0] == "read":
		if strings.HasPrefix(o, "vals=H") {
			return
		}
		var parts []string
		col := action[1]
		for _, off := range want {
			v, has := sc.rows[off][col]
			kind := sc.cols[col].kind
			if _, isIdx := sc.indexes[col]; isIdx {
				b, _ := sc.bitsOf(col)
				if b[off] {
					parts = append(parts, fmt.Sprintf("%d:01", off))
				} else {
					parts = append(parts, fmt.Sprintf("%d:~", off))
				}
				continue
			}
			switch {
			case !has || (kind == "record" && len(v) > 0 && v[0] == 0xff):
				parts = append(parts, fmt.Sprintf("%d:~", off))
			case kind == "bool":
				parts = append(parts, fmt.Sprintf("%d:01", off))
			default:
				parts = append(parts, fmt.Sprintf("%d:%s", off, hexOf(v)))
			}
		}
		if o != "vals="+strings.Join(parts, " ") && !strings.Contains(o, "7ff8") && !strings.Contains(o, "7fc0") {
			fail("filter", "line %d (%s): iteration read [%s], the committed rows give [%s]", i, clip(strings.Join(rest, " "), 100), clip(strings.TrimPrefix(o, "vals="), 200), clip(strings.Join(parts, " "), 200))
		}
	case len(action) == 1 && action[0] == "deleteall":
		for _, off := range want {
			t.changes = append(t.changes, specChange{"del", off, "", nil})
		}
		if o != fmt.Sprintf("deleted=%d", len(want)) {
			fail("filter", "line %d: DeleteAll covered %s rows, the selection holds %d", i, o, len(want))
		}
	case len(action) == 2 && action[0] == "ascend":
		col, ok := sc.sorted[action[1]]
		if !ok {
			if o != "err:nosort" {
				fail("sorted", "line %d: Ascend over a missing sorted index answered %s", i, clip(o, 60))
			}
			return
		}
		if strings.HasPrefix(o, "rows=H") {
			return
		}
		type kv2 struct {
			k   string
			off uint32
		}
		var es []kv2
		for _, off := range want {
			if v, has := sc.rows[off][col]; has {
				es = append(es, kv2{string(v), off})
			}
		}
		sort.Slice(es, func(a, b int) bool {
			if es[a].k != es[b].k {
				return es[a].k < es[b].k
			}
			return es[a].off < es[b].off
		})
		var offs []uint32
		for _, e := range es {
			offs = append(offs, e.off)
		}
		got := strings.Fields(strings.TrimPrefix(o, "rows="))
		// complete, each once, values non-decreasing (ties in any order)
		gotSet := map[string]int{}
		for _, g := range got {
			gotSet[g]++
		}
		for _, off := range offs {
			if gotSet[strconv.Itoa(int(off))] != 1 {
				fail("sorted", "line %d: Ascend visited row %d %d times (selected rows holding a value: [%s], visited: [%s])", i, off, gotSet[strconv.Itoa(int(off))], clip(offsList(offs), 160), clip(strings.Join(got, " "), 160))
				return
			}
		}
		if len(got) != len(offs) {
			fail("sorted", "line %d: Ascend visited %d rows, %d selected rows hold a value", i, len(got), len(offs))
			return
		}
		prev := ""
		for n, g := range got {
			off64, _ := strconv.ParseUint(g, 10, 32)
			k := string(sc.rows[uint32(off64)][col])
			if n > 0 && k < prev {
				fail("sorted", "line %d: Ascend is not in non-decreasing order of the current values at position %d", i, n)
				return
			}
			prev = k
		}
	case len(action) == 2:
		specAggregate(sc, want, action[0], action[1], o, i, rest, fail)
	}
}

func specAggregate(sc *specColl, sel []uint32, what, col, o string, i int, rest []string, fail func(string, string, ...interface{})) {
	kind := sc.cols[col].kind
	w := numWidth(kind)
	if w == 0 || strings.HasSuffix(o, "=inexact") {
		return
	}
	var vals [][]byte
	for _, off := range sel {
		if v, has := sc.rows[off][col]; has {
			vals = append(vals, v)
		}
	}
	isF := kind == "float32" || kind == "float64"
	signed := kind == "int16" || kind == "int32" || kind == "int64" || kind == "int"
	var want string
	switch what {
	case "sum", "avg":
		var usum uint64
		var fsum float64
		for _, v := range vals {
			if isF {
				f, _ := convFloat64(kind, v)
				fsum += f
			} else {
				usum += beU(v)
			}
		}
		if what == "sum" {
			if kind == "float32" {
				want = "sum=" + hexOf(be(uint64(math.Float32bits(float32(fsum))), 4))
			} else if kind == "float64" {
				want = "sum=" + hexOf(be(math.Float64bits(fsum), 8))
			} else {
				want = "sum=" + hexOf(be(usum, w))
			}
		} else {
			var f float64
			switch {
			case isF:
				f = fsum
			case signed:
				f = float64(signedOf(be(usum, w)))
			default:
				f = float64(beU(be(usum, w)))
			}
			want = "avg=" + floatBits(f/float64(len(vals)))
		}
	case "min", "max":
		if len(vals) == 0 {
			want = what + "=none"
			break
		}
		best := vals[0]
		less := func(a, b []byte) bool {
			switch {
			case isF:
				x, _ := convFloat64(kind, a)
				y, _ := convFloat64(kind, b)
				return x < y
			case signed:
				return signedOf(a) < signedOf(b)
			}
			return beU(a) < beU(b)
		}
		for _, v := range vals[1:] {
			if (what == "min" && less(v, best)) || (what == "max" && less(best, v)) {
				best = v
			}
		}
		want = what + "=" + hexOf(best)
	default:
		return
	}
	if o != want {
		fail("filter", "line %d (%s): %s, computed directly over the %d selected rows holding a value: %s", i, clip(strings.Join(rest, " "), 100), o, len(vals), want)
	}
}

// storeOracle returns the implementation-only oracle of a property for store-mode scripts.
func storeOracle(prop string) Oracle {
	classes := map[string]bool{}
	for _, c := range propClasses[prop] {
		classes[c] = true
	}
	return func(c Case, out []string) string {
		fails, _ := specRun(c, out)
		for _, f := range fails {
			if classes[f.class] || len(propClasses[prop]) == 0 {
				return f.msg
			}
		}
		return ""
	}
}
