package main

import (
	"fmt"
	"math"
	"math/rand"
	"os"
	"sort"
	"strconv"
	"strings"

	"github.com/zeebo/xxh3"
)

func getenv(n string) string { return os.Getenv(n) }

// ---------------------------------------------------------------------------------------------
// store-mode generator. It is adaptive: every generated line is executed at once against the
// real implementation, and later choices (which offsets are live, which keys exist) use what
// came back. The finished script is static and is then run on both sides by runScripted.
// ---------------------------------------------------------------------------------------------

type profile struct {
	name      string
	wIndex    int // weight of index creation/drop
	wFilter   int // weight of select lines
	wKey      int // use a key column
	wSort     int
	wTrigger  int
	wSnapshot int
	wReplica  int
	wRollback int
	wFailIns  int // failing inserts
	wBulk     int
	wObserve  int // concurrent observer transaction
	wDropCol  int
	dirty     bool // allow known-finding patterns (write+delete of one row, merge on absent, …)
	maxSteps  int
}

var profiles = map[string]profile{
	"C01":   {name: "C01", wIndex: 1, wFilter: 1, wKey: 1, wSnapshot: 1, wReplica: 1, wRollback: 1, wBulk: 3, wDropCol: 1, maxSteps: 30},
	"C02":   {name: "C02", wIndex: 2, wFilter: 1, wKey: 2, wRollback: 6, wFailIns: 2, wBulk: 1, wObserve: 4, wTrigger: 1, maxSteps: 24},
	"C03":   {name: "C03", wIndex: 8, wFilter: 4, wSnapshot: 2, wReplica: 2, wRollback: 1, wBulk: 2, maxSteps: 30},
	"C04":   {name: "C04", wIndex: 4, wFilter: 12, wBulk: 3, wRollback: 1, maxSteps: 26},
	"C06":   {name: "C06", wIndex: 2, wReplica: 8, wKey: 1, wSort: 1, wBulk: 2, wRollback: 1, maxSteps: 30},
	"C07":   {name: "C07", wIndex: 2, wSnapshot: 8, wKey: 1, wSort: 1, wBulk: 3, wRollback: 1, maxSteps: 30},
	"C08":   {name: "C08", wIndex: 2, wSnapshot: 10, wKey: 1, wBulk: 2, wRollback: 1, maxSteps: 24},
	"C09":   {name: "C09", wBulk: 3, wReplica: 1, wSnapshot: 1, wRollback: 1, wFilter: 1, maxSteps: 34},
	"C11":   {name: "C11", wBulk: 6, wRollback: 1, wFilter: 1, maxSteps: 40},
	"C12":   {name: "C12", wKey: 100, wRollback: 2, wIndex: 1, wSnapshot: 1, wReplica: 1, maxSteps: 30},
	"C15":   {name: "C15", wKey: 2, wReplica: 2, wRollback: 3, wFailIns: 1, wBulk: 2, wDropCol: 3, wIndex: 1, maxSteps: 26},
	"C16":   {name: "C16", wSort: 100, wFilter: 5, wIndex: 2, wBulk: 2, wSnapshot: 1, wReplica: 1, maxSteps: 30},
	"C17":   {name: "C17", wReplica: 6, wSnapshot: 4, wBulk: 3, wRollback: 1, wIndex: 1, wFilter: 1, maxSteps: 30},
	"C19":   {name: "C19", wTrigger: 100, wRollback: 3, wBulk: 1, wReplica: 1, wSnapshot: 1, maxSteps: 30},
	"dirty": {name: "dirty", wIndex: 3, wFilter: 3, wKey: 1, wSort: 1, wTrigger: 1, wSnapshot: 1, wReplica: 2, wRollback: 3, wFailIns: 3, wBulk: 2, wObserve: 1, wDropCol: 1, dirty: true, maxSteps: 30},
}

var numKinds = []string{"int16", "int32", "int64", "int", "uint16", "uint32", "uint64", "uint", "float32", "float64"}

type genCol struct {
	name  string
	kind  string
	merge string
}

type gen struct {
	r           *rand.Rand
	p           profile
	impl        *storeImpl
	lines       []string
	feats       map[string]bool
	rep         *Report
	cols        []genCol
	indexes     []string // index name
	txnRollback bool     // the transaction being generated ends in a rollback
	caseID      int
	idxOn       map[string]string
	sorts       []string
	trigs       []string
	keyCol      string
	live        map[uint32]bool
	keys        []string // key alphabet (hex)
	hasRep      bool
	nTxn        int
	nIdx        int
	nCol        int
	cap         int
	logger      string
	enumPool    []string
	dead        bool
	hasVal      map[uint32]map[string]bool // committed values known to the generator
	txnRes      map[string]bool            // (off|col) that had a possibly resizing merge in the open transaction
	txnSet      map[string]bool            // (off|col) written in the open transaction
	everVal     map[string]bool            // (off|col) ever written on the primary
}

func (g *gen) emit(line string) string {
	g.lines = append(g.lines, line)
	out := safeExec(g.impl, line)
	if out == "panic" || out == "dead" {
		g.dead = true
	}
	g.noteWrites(line, out)
	return out
}

// noteWrites remembers which (offset, column) slots of the primary were ever written (committed or not): a
// merge as the first write is only well-defined on a slot that never held anything (finding D11 otherwise)
func (g *gen) noteWrites(line, out string) {
	f := strings.Fields(line)
	if len(f) < 4 || f[0] != "p" {
		return
	}
	var off uint32
	var acts []string
	switch f[2] {
	case "at":
		v, err := strconv.ParseUint(f[3], 10, 32)
		if err != nil {
			return
		}
		off, acts = uint32(v), f[4:]
	case "insert", "inskey", "upskey", "qkey":
		o, ok := parseOff(out)
		if !ok {
			return
		}
		off, acts = o, f[3:]
	default:
		return
	}
	if g.everVal == nil {
		g.everVal = map[string]bool{}
	}
	for _, a := range acts {
		p := strings.Split(a, ":")
		if len(p) == 3 && (p[0] == "set" || p[0] == "merge") {
			g.everVal[fmt.Sprintf("%d|%s", off, p[1])] = true
		}
	}
}

func (g *gen) feat(f string) { g.feats[f] = true; g.rep.count("gen:" + f) }

func hexU(v uint64, w int) string { return hexOf(be(v, w)) }

// boundary-heavy value pools
func (g *gen) numValue(kind string, small bool) string {
	w := numWidth(kind)
	r := g.r
	if small {
		// small integers (exact in every numeric type, safe for float aggregates)
		v := int64(r.Intn(41) - 20)
		switch kind {
		case "float32":
			return hexU(uint64(math.Float32bits(float32(v))), 4)
		case "float64":
			return hexU(math.Float64bits(float64(v)), 8)
		case "uint16", "uint32", "uint64", "uint":
			if v < 0 {
				v = -v
			}
		}
		m := uint64(math.MaxUint64)
		if w < 8 {
			m = 1<<(uint(w)*8) - 1
		}
		return hexU(uint64(v)&m, w)
	}
	switch kind {
	case "float32":
		pool := []uint32{0, 0x80000000, 0x3f800000, 0xbf800000, 0x7f800000, 0xff800000, 0x7fc00001, 0x00000001, 0x7f7fffff, math.Float32bits(3.25), math.Float32bits(-1e10)}
		if r.Intn(3) == 0 {
			return hexU(uint64(r.Uint32()), 4)
		}
		return hexU(uint64(pool[r.Intn(len(pool))]), 4)
	case "float64":
		pool := []uint64{0, 0x8000000000000000, 0x3ff0000000000000, 0xbff0000000000000, 0x7ff0000000000000, 0xfff0000000000000, 0x7ff8000000000001, 1, 0x7fefffffffffffff, math.Float64bits(2.5), math.Float64bits(-1e100)}
		if r.Intn(3) == 0 {
			return hexU(r.Uint64(), 8)
		}
		return hexU(pool[r.Intn(len(pool))], 8)
	}
	mask := uint64(math.MaxUint64)
	if w < 8 {
		mask = 1<<(uint(w)*8) - 1
	}
	pool := []uint64{0, 1, 2, mask, mask - 1, mask >> 1, mask>>1 + 1, 0x80, 0xff, 0x100, 42}
	if r.Intn(3) == 0 {
		return hexU(r.Uint64()&mask, w)
	}
	return hexU(pool[r.Intn(len(pool))]&mask, w)
}

var strAlphabet = []string{"", "a", "b", "ab", "abc", "b", "c", "zz", "hello", "a\x00b", "\xff\xfe", "key"}

func (g *gen) strValue(big bool) string {
	r := g.r
	if big && r.Intn(12) == 0 {
		n := []int{127, 128, 255, 256, 1000, 65535}[r.Intn(6)]
		b := make([]byte, n)
		for i := range b {
			b[i] = byte('a' + (i % 26))
		}
		return hexOf(b)
	}
	return hexOf([]byte(strAlphabet[r.Intn(len(strAlphabet))]))
}

func (g *gen) recValue() string {
	if g.r.Intn(10) == 0 {
		return hexOf([]byte{0xff, 1, 2}) // undecodable record
	}
	return g.strValue(false)
}

func (g *gen) enumValue() string { return hexOf([]byte(g.enumPool[g.r.Intn(len(g.enumPool))])) }

func (g *gen) colsOf(pred func(genCol) bool) []genCol {
	var out []genCol
	for _, c := range g.cols {
		if pred(c) {
			out = append(out, c)
		}
	}
	return out
}

func isNum(k string) bool { return numWidth(k) > 0 }

func (g *gen) hasMergeResize(c genCol) bool {
	return (c.kind == "string" && c.merge != "") || c.kind == "record"
}

// writeAction produces one set/merge/bool action for a random column. In the clean stream a merge
// is only issued onto a value the row is known to hold (finding D11) and nothing follows a possibly
// resizing merge on the same row and column inside one transaction (finding D12).
func (g *gen) writeAction(allowMerge bool) string { return g.writeActionAt(0, false, allowMerge) }

func (g *gen) writeActionAt(off uint32, known bool, allowMerge bool) string {
	if len(g.cols) == 0 {
		return ""
	}
	c := g.cols[g.r.Intn(len(g.cols))]
	key := fmt.Sprintf("%d|%s", off, c.name)
	merge := allowMerge && (g.r.Intn(3) == 0 || (g.p.name == "C09" && g.r.Intn(2) == 0))
	if !g.p.dirty {
		if known && g.txnRes[key] {
			return ""
		}
		fresh := known && g.live[off] && !g.everVal[key] // a live row's slot that never held anything: merges onto the zero value
		if merge && !(known && (g.hasVal[off][c.name] || fresh) && !g.txnSet[key]) {
			merge = false
		}
		if merge && fresh && !g.hasVal[off][c.name] {
			g.feat("merge-first-write-fresh-slot")
		}
		if merge && g.hasMergeResize(c) {
			g.txnRes[key] = true
		}
	}
	if known {
		g.txnSet[key] = true
	}
	switch {
	case isNum(c.kind):
		v := g.numValue(c.kind, c.merge != "" || g.r.Intn(2) == 0)
		if merge {
			if c.kind == "float32" || c.kind == "float64" {
				v = g.numValue(c.kind, true) // float merges on exact small integers only
			}
			g.feat("merge-num")
			return fmt.Sprintf("merge:%s:%s", c.name, v)
		}
		return fmt.Sprintf("set:%s:%s", c.name, v)
	case c.kind == "bool":
		return fmt.Sprintf("bool:%s:%d", c.name, g.r.Intn(2))
	case c.kind == "string":
		if merge {
			g.feat("merge-string")
			return fmt.Sprintf("merge:%s:%s", c.name, g.strValue(false))
		}
		return fmt.Sprintf("set:%s:%s", c.name, g.strValue(c.merge != "concat" && c.merge != "tail")) // no 65535-byte values where a merge lengthens them (O2)
	case c.kind == "enum":
		return fmt.Sprintf("set:%s:%s", c.name, g.enumValue())
	case c.kind == "record":
		if merge {
			g.feat("merge-record")
			return fmt.Sprintf("merge:%s:%s", c.name, g.recValue())
		}
		return fmt.Sprintf("set:%s:%s", c.name, g.recValue())
	}
	return ""
}

func (g *gen) actions(n int, allowMerge bool) string {
	var acts []string
	for i := 0; i < n; i++ {
		if a := g.writeAction(allowMerge); a != "" {
			acts = append(acts, a)
		}
	}
	return strings.Join(acts, " ")
}

func (g *gen) actionsAt(off uint32, n int) string {
	var acts []string
	for i := 0; i < n; i++ {
		if a := g.writeActionAt(off, true, true); a != "" {
			acts = append(acts, a)
		}
	}
	return strings.Join(acts, " ")
}

func (g *gen) liveList() []uint32 {
	var out []uint32
	for o := range g.live {
		out = append(out, o)
	}
	sort.Slice(out, func(a, b int) bool { return out[a] < out[b] })
	return out
}

func (g *gen) pickLive() (uint32, bool) {
	l := g.liveList()
	if len(l) == 0 {
		return 0, false
	}
	// prefer chunk / word edges
	if g.r.Intn(3) == 0 {
		var edges []uint32
		for _, o := range l {
			m := o % 16384
			if m < 2 || m > 16381 || o%64 == 0 || o%64 == 63 {
				edges = append(edges, o)
			}
		}
		if len(edges) > 0 {
			return edges[g.r.Intn(len(edges))], true
		}
	}
	return l[g.r.Intn(len(l))], true
}

func parseOff(out string) (uint32, bool) {
	for _, f := range strings.Fields(out) {
		if strings.HasPrefix(f, "off=") {
			v, err := strconv.ParseUint(f[4:], 10, 32)
			return uint32(v), err == nil
		}
	}
	return 0, false
}

// ---------------------------------------------------------------------------------------------

func (g *gen) setup() {
	r := g.r
	g.emit("reset")
	g.enumPool = []string{"red", "green", "blue", "e14884", "e28738", "", "x"}
	for _, s := range g.enumPool {
		g.emit(fmt.Sprintf("hash %s %d", hexOf([]byte(s)), uint32(xxh3.Hash([]byte(s)))))
	}
	caps := []int{0, 1, 64, 100, 1024, 20000, 70000}
	g.cap = caps[r.Intn(len(caps))]
	g.logger = []string{"none", "channel", "log"}[r.Intn(3)]
	if g.p.wReplica > 0 && g.logger == "none" {
		g.logger = []string{"channel", "log"}[r.Intn(2)]
	}
	g.rep.count("cap=" + strconv.Itoa(g.cap))
	g.rep.count("logger=" + g.logger)
	g.emit(fmt.Sprintf("new p cap=%d logger=%s", g.cap, g.logger))
	if g.p.wReplica > 0 && r.Intn(10) < 7 {
		g.hasRep = true
		g.emit(fmt.Sprintf("new r cap=%d logger=none", caps[r.Intn(len(caps))]))
	}
	useKey := g.p.wKey >= 100 || (g.p.wKey > 0 && r.Intn(4) < g.p.wKey)
	if useKey {
		g.addCol(genCol{"k", "key", ""})
		g.keys = []string{hexOf([]byte("a")), hexOf([]byte("b")), hexOf([]byte("c")), hexOf([]byte("d")), hexOf([]byte("e")), hexOf([]byte("f"))}
	}
	n := 2 + r.Intn(4)
	for i := 0; i < n; i++ {
		g.addRandomCol()
	}
	if g.p.wSort >= 100 {
		g.addCol(genCol{"name", "string", []string{"", "concat"}[r.Intn(2)]})
	}
	// profiles about computed columns: a string column whose merges change the length, and one
	// computed column per data column, so that every kind's Apply/Swap path feeds an index / trigger
	if g.p.name == "C03" || g.p.name == "C19" || g.p.name == "C16" {
		g.addCol(genCol{"sc", "string", "concat"})
		if r.Intn(2) == 0 {
			g.addCol(genCol{"ni", "int", []string{"", "dbl"}[r.Intn(2)]})
		}
		for _, c := range append([]genCol(nil), g.cols...) {
			switch g.p.name {
			case "C03":
				if c.kind != "record" && r.Intn(3) > 0 {
					g.addIndexOn(c)
				}
			case "C19":
				if r.Intn(3) > 0 {
					g.addTriggerOn(c)
				}
			case "C16":
				if c.kind == "string" && c.name != "name" {
					name := fmt.Sprintf("s%d", len(g.sorts))
					g.emit(fmt.Sprintf("p sortindex %s %s", name, c.name))
					if g.hasRep {
						g.emit(fmt.Sprintf("r sortindex %s %s", name, c.name))
					}
					g.sorts = append(g.sorts, name)
				}
			}
		}
	}
	// snapshot / replica profiles: one column of every kind that has its own Snapshot code
	if g.p.name == "C07" || g.p.name == "C06" || g.p.name == "C08" {
		g.addCol(genCol{"kf", "float32", ""})
		g.addCol(genCol{"ku", "uint16", ""})
		g.addCol(genCol{"ke", "enum", ""})
		g.addCol(genCol{"kb", "bool", ""})
		g.addCol(genCol{"kr", "record", ""})
		g.addCol(genCol{"ks", "string", ""})
		g.addCol(genCol{"kn", "int32", ""})
		g.addCol(genCol{"k16", "int16", ""})
	}
	// index / filter profiles: one numeric column whose kind rotates with the case number (each kind has its own
	// Apply and Swap code), an index on it, and merges that move values across the rule (step mergeIndexed)
	if g.p.name == "C03" || g.p.name == "C04" || g.p.name == "C19" {
		mk := genCol{"mk", numKinds[g.caseID%len(numKinds)], ""}
		g.addCol(mk)
		if g.p.name == "C19" {
			g.addTriggerOn(mk) // the trigger is told each value through the reader of that kind
		} else {
			g.addIndexOn(mk)
		}
		g.rep.count("indexed-merge-kind=" + mk.kind)
	}
	// filter profile: an enum column that only every other row holds (a filter that forgets the presence list is
	// caught by the rows without a value sitting next to rows with the same interned value)
	if g.p.name == "C04" {
		g.addCol(genCol{"fe", "enum", ""})
		g.addCol(genCol{"fn", "int16", ""})
		g.nTxn++
		tid := fmt.Sprintf("e%d", g.nTxn)
		g.emit("p begin " + tid)
		for i := 0; i < 10; i++ {
			acts := fmt.Sprintf("set:fn:%04x", uint16(int16(i*3-12))) // negative and non-negative values
			if i%2 == 0 {
				acts += " set:fe:" + hexOf([]byte([]string{"red", "green"}[i/2%2]))
			}
			out := g.emit(fmt.Sprintf("p %s insert %s", tid, acts))
			if off, ok := parseOff(out); ok {
				g.live[off] = true
			}
		}
		g.emit("p commit " + tid)
		g.feat("sparse-enum-column")
	}
	// merge-heavy profile: one column per merge family whose result aliases / resizes / folds
	if g.p.name == "C09" {
		g.addCol(genCol{"st", "string", "tail"})
		g.addCol(genCol{"sc", "string", "concat"})
		g.addCol(genCol{"rc", "record", "concat"})
		g.addCol(genCol{"nd", "int64", "dbl"})
		g.addCol(genCol{"ns", "uint16", ""})
	}
	// the deadline column: the built-in int64 column "expire" (what SetTTL stores into and Extend merges into),
	// written and merged like any other column so that its values go through commit, replay and snapshot
	if g.p.name == "C17" {
		for i := 0; i < 3; i++ {
			g.cols = append(g.cols, genCol{"expire", "int64", ""})
		}
		g.feat("deadline-column")
	}
	// cheap multi-chunk population: rows around the 16K-chunk edges, inserted through Replay
	allKinds := g.p.name == "C07" || g.p.name == "C06" || g.p.name == "C08"
	if r.Intn(3) == 0 || (g.p.name == "C17" && r.Intn(3) > 0) || (g.p.wKey >= 100 && r.Intn(4) > 0) || (allKinds && r.Intn(4) > 0) || (g.p.name == "C02" && r.Intn(4) > 0) || (g.p.name == "C16" && r.Intn(3) > 0) {
		pool := []uint32{5, 63, 64, 16383, 16384, 16385, 16390, 20000, 32767, 32768, 32769, 40000}
		var offs []string
		for _, o := range pool {
			if r.Intn(2) == 0 {
				offs = append(offs, strconv.Itoa(int(o)))
				g.live[o] = true
			}
		}
		if len(offs) > 0 {
			g.emit("p sparse " + strings.Join(offs, " "))
			g.feat("sparse-multichunk")
			g.feat("row-in-chunk>=1")
			// keyed collection: the far rows get keys of their own (so that re-keying, deleting and
			// upserting by key reach rows whose absolute and chunk-relative offsets differ)
			if g.keyCol != "" && r.Intn(4) > 0 {
				g.nTxn++
				tid := fmt.Sprintf("k%d", g.nTxn)
				g.emit("p begin " + tid)
				for _, o := range offs {
					k := hexOf([]byte("s" + o))
					g.emit(fmt.Sprintf("p %s at %s key:%s", tid, o, k))
					if len(g.keys) < 12 {
						g.keys = append(g.keys, k)
					}
				}
				g.emit("p commit " + tid)
				g.feat("keyed-far-rows")
			}
			// the sorted-index profile: the far rows hold values in the sorted columns (an index created later must
			// back-fill every chunk)
			if g.p.name == "C16" {
				g.nTxn++
				tid := fmt.Sprintf("v%d", g.nTxn)
				g.emit("p begin " + tid)
				for _, o := range offs {
					acts := ""
					for _, c := range g.cols {
						if c.kind == "string" {
							acts += fmt.Sprintf(" set:%s:%s", c.name, g.strValue(false))
						}
					}
					if acts != "" {
						g.emit(fmt.Sprintf("p %s at %s%s", tid, o, acts))
					}
				}
				g.emit("p commit " + tid)
				g.feat("sorted-far-rows")
			}
			// every kind holds values beyond the first chunk
			if allKinds {
				g.nTxn++
				tid := fmt.Sprintf("v%d", g.nTxn)
				g.emit("p begin " + tid)
				for i, o := range offs {
					g.emit(fmt.Sprintf("p %s at %s set:ke:%s bool:kb:%d set:kr:%s set:ks:%s set:kn:%08x set:k16:%04x set:kf:%08x set:ku:%04x", tid, o, g.enumValue(), i%2, g.recValue(), g.strValue(false), uint32(i+1), uint16(100+i), math.Float32bits(float32(i)+2), uint16(7+i)))
				}
				g.emit("p commit " + tid)
				g.feat("all-kinds-far-rows")
			}
		}
	}
}

func (g *gen) addRandomCol() {
	r := g.r
	name := fmt.Sprintf("c%d", g.nCol)
	g.nCol++
	var c genCol
	switch x := r.Intn(20); {
	case x < 10:
		k := numKinds[r.Intn(len(numKinds))]
		c = genCol{name, k, []string{"", "", "dbl", "delta"}[r.Intn(4)]}
	case x < 12:
		c = genCol{name, "bool", ""}
	case x < 16:
		c = genCol{name, "string", []string{"", "concat", "keep", "tail"}[r.Intn(4)]}
	case x < 18:
		c = genCol{name, "enum", ""}
	default:
		c = genCol{name, "record", []string{"", "concat"}[r.Intn(2)]}
	}
	g.addCol(c)
}

func (g *gen) addCol(c genCol) {
	line := fmt.Sprintf("col %s %s", c.name, c.kind)
	if c.merge != "" {
		line += " merge=" + c.merge
	}
	g.emit("p " + line)
	if g.hasRep {
		g.emit("r " + line)
	}
	if c.kind == "key" {
		g.keyCol = c.name
	} else {
		g.cols = append(g.cols, c)
	}
	g.rep.count("col-kind=" + c.kind)
}

func (g *gen) ruleFor(c genCol) string {
	r := g.r
	switch {
	case c.kind == "float32" || c.kind == "float64":
		return fmt.Sprintf("float %s%d", []string{"gt", "lt"}[r.Intn(2)], r.Intn(21)-10)
	case strings.HasPrefix(c.kind, "uint"):
		return []string{"uint gt5", "uint eq0", "uint odd", "uint lt100"}[r.Intn(4)]
	case isNum(c.kind):
		return []string{"int gt0", "int lt0", "int gt-5", "int lt-1", "int odd", "int eq0"}[r.Intn(6)]
	case c.kind == "bool":
		return "bool"
	case c.kind == "string" || c.kind == "enum":
		return []string{"streq " + hexOf([]byte("a")), "strpfx " + hexOf([]byte("a")), "streq -", "strpfx " + hexOf([]byte("b")), "always"}[r.Intn(5)]
	}
	return "always"
}

func (g *gen) addIndex() {
	cands := g.colsOf(func(c genCol) bool { return c.kind != "record" })
	if len(cands) == 0 {
		return
	}
	g.addIndexOn(cands[g.r.Intn(len(cands))])
}

func (g *gen) addTriggerOn(c genCol) {
	name := fmt.Sprintf("t%d", g.nIdx)
	g.nIdx++
	g.emit(fmt.Sprintf("p trigger %s %s", name, c.name))
	if g.hasRep {
		g.emit(fmt.Sprintf("r trigger %s %s", name, c.name))
	}
	g.trigs = append(g.trigs, name)
	g.feat("trigger")
}

func (g *gen) addIndexOn(c genCol) {
	name := fmt.Sprintf("i%d", g.nIdx)
	g.nIdx++
	line := fmt.Sprintf("index %s %s %s", name, c.name, g.ruleFor(c))
	g.emit("p " + line)
	if g.hasRep {
		g.emit("r " + line)
	}
	g.indexes = append(g.indexes, name)
	g.idxOn[name] = c.name
	if len(g.live) > 0 {
		g.feat("index-after-data")
	}
	if len(g.live) > 16384 {
		g.feat("index-after-data-multichunk")
	}
}

func (g *gen) dropIndex() {
	if len(g.indexes) == 0 {
		return
	}
	i := g.r.Intn(len(g.indexes))
	name := g.indexes[i]
	g.indexes = append(g.indexes[:i], g.indexes[i+1:]...)
	g.emit("p dropindex " + name)
	if g.hasRep {
		g.emit("r dropindex " + name)
	}
	g.feat("drop-index")
}

func (g *gen) addSort() {
	cands := g.colsOf(func(c genCol) bool { return c.kind == "string" })
	if len(cands) == 0 {
		return
	}
	c := cands[g.r.Intn(len(cands))]
	name := fmt.Sprintf("s%d", len(g.sorts))
	g.emit(fmt.Sprintf("p sortindex %s %s", name, c.name))
	if g.hasRep {
		g.emit(fmt.Sprintf("r sortindex %s %s", name, c.name))
	}
	g.sorts = append(g.sorts, name)
	if len(g.live) > 0 {
		g.feat("sort-after-data")
	}
}

func (g *gen) addTrigger() {
	if len(g.cols) == 0 {
		return
	}
	c := g.cols[g.r.Intn(len(g.cols))]
	name := fmt.Sprintf("t%d", g.nIdx)
	g.nIdx++
	g.emit(fmt.Sprintf("p trigger %s %s", name, c.name))
	if g.hasRep {
		g.emit(fmt.Sprintf("r trigger %s %s", name, c.name))
	}
	g.trigs = append(g.trigs, name)
	g.feat("trigger")
}

func (g *gen) dropTrigger() {
	if len(g.trigs) == 0 {
		return
	}
	i := g.r.Intn(len(g.trigs))
	name := g.trigs[i]
	g.trigs = append(g.trigs[:i], g.trigs[i+1:]...)
	g.emit("p droptrigger " + name)
	if g.hasRep {
		g.emit("r droptrigger " + name)
	}
	g.feat("drop-trigger")
}

// one transaction
func (g *gen) txn() {
	r := g.r
	g.nTxn++
	tid := fmt.Sprintf("t%d", g.nTxn)
	g.emit("p begin " + tid)
	g.txnRes = map[string]bool{}
	g.txnSet = map[string]bool{}
	nops := 1 + r.Intn(8)
	written := map[uint32]bool{}
	deleted := map[uint32]bool{}
	inserted := map[uint32]bool{}
	var insertedOK []uint32
	hadFail := false
	rollback := g.p.wRollback > 0 && r.Intn(12) < g.p.wRollback
	g.txnRollback = rollback
	for i := 0; i < nops && !g.dead; i++ {
		x := r.Intn(10)
		switch {
		case g.keyCol != "" && x < 6:
			g.keyOp(tid, inserted, deleted, &insertedOK)
		case x < 4 || len(g.live) == 0:
			if g.keyCol != "" {
				g.keyOp(tid, inserted, deleted, &insertedOK)
				continue
			}
			fail := g.p.wFailIns > 0 && r.Intn(10) < g.p.wFailIns && (g.p.dirty || rollback)
			line := fmt.Sprintf("p %s insert %s", tid, g.actions(r.Intn(4), g.p.dirty))
			if fail {
				if off, ok := g.pickLive(); ok && r.Intn(2) == 0 {
					line = strings.TrimRight(line, " ") + fmt.Sprintf(" visit:%d", off) // the callback reads another row before it gives up
					g.feat("failing-insert-after-visit")
				}
				line += " fail"
				hadFail = true
				g.feat("failing-insert")
			} else {
				line = strings.TrimRight(line, " ") + g.endsElsewhere()
			}
			out := g.emit(strings.TrimRight(line, " "))
			if off, ok := parseOff(out); ok && !fail {
				inserted[off] = true
				insertedOK = append(insertedOK, off)
			}
		case x < 8:
			off, ok := g.pickLive()
			if !ok {
				continue
			}
			if !g.p.dirty && deleted[off] {
				continue
			}
			acts := g.actionsAt(off, 1+r.Intn(3))
			if r.Intn(4) == 0 && len(g.cols) > 0 {
				acts += " get:" + g.cols[r.Intn(len(g.cols))].name
			}
			g.emit(strings.TrimRight(fmt.Sprintf("p %s at %d %s", tid, off, acts), " "))
			if written[off] {
				g.feat("several-writes-one-row")
			}
			written[off] = true
		default:
			off, ok := g.pickLive()
			if !ok {
				continue
			}
			if !g.p.dirty && (written[off] || deleted[off]) {
				continue
			}
			g.emit(fmt.Sprintf("p %s del %d", tid, off))
			deleted[off] = true
			g.feat("delete")
		}
		if g.p.wObserve > 0 && r.Intn(10) < g.p.wObserve {
			g.observe()
		}
	}
	if g.p.wFilter > 0 && r.Intn(20) < g.p.wFilter {
		g.selectLine(tid)
	}
	if g.p.wDropCol > 0 && r.Intn(25) < g.p.wDropCol && len(g.cols) > 1 {
		// drop a column between the writes and the commit
		i := r.Intn(len(g.cols))
		name := g.cols[i].name
		used := false
		for _, n := range g.idxOn {
			if n == name {
				used = true
			}
		}
		if !used {
			g.cols = append(g.cols[:i], g.cols[i+1:]...)
			g.emit("p dropcol " + name)
			if g.hasRep {
				g.emit("r dropcol " + name)
			}
			g.feat("drop-column-before-commit")
		}
	}
	if rollback && (g.p.dirty || len(insertedOK) == 0 || true) {
		if len(insertedOK) > 0 {
			g.feat("rollback-after-insert")
		}
		g.emit("p rollback " + tid)
		g.feat("rollback")
		// offsets reserved by the rolled back inserts stay occupied in the implementation (finding D8);
		// the generator learns the truth from the next dump
		for _, o := range insertedOK {
			g.live[o] = true
		}
		_ = hadFail
		return
	}
	g.emit("p commit " + tid)
	for o := range written {
		delete(g.hasVal, o) // unknown until the next dump
	}
	for o := range deleted {
		delete(g.hasVal, o)
	}
	for o := range inserted {
		delete(g.hasVal, o)
		g.live[o] = true
		if o >= 16384 {
			g.feat("row-in-chunk>=1")
		}
	}
	for o := range deleted {
		delete(g.live, o)
	}
}

func (g *gen) keyOp(tid string, inserted, deleted map[uint32]bool, insertedOK *[]uint32) {
	r := g.r
	key := g.keys[r.Intn(len(g.keys))]
	if !g.p.dirty {
		// one key operation per key and transaction in the clean stream (finding D14)
		if g.txnSet["key|"+key] {
			return
		}
		g.txnSet["key|"+key] = true
	}
	x := r.Intn(10)
	if g.p.wKey >= 100 && x == 2 {
		x = 9 // the key profile re-keys twice as often
	}
	switch {
	case x < 3:
		failing := g.failingKeyed()
		out := g.emit(strings.TrimRight(fmt.Sprintf("p %s inskey %s %s", tid, key, g.actions(r.Intn(3), false)), " ") + g.endsElsewhere() + failing)
		if off, ok := parseOff(out); ok && failing == "" {
			inserted[off] = true
			*insertedOK = append(*insertedOK, off)
		}
		g.feat("inskey")
	case x < 6:
		failing := g.failingKeyed()
		out := g.emit(strings.TrimRight(fmt.Sprintf("p %s upskey %s %s", tid, key, g.actions(1+r.Intn(2), g.p.dirty)), " ") + g.endsElsewhere() + failing)
		if off, ok := parseOff(out); ok && failing == "" {
			inserted[off] = true
			*insertedOK = append(*insertedOK, off)
		}
		g.feat("upskey")
	case x < 7:
		g.emit(strings.TrimRight(fmt.Sprintf("p %s qkey %s %s get:%s", tid, key, g.actions(r.Intn(2), g.p.dirty), g.keyCol), " "))
		g.feat("qkey")
	case x < 9:
		if g.p.wKey >= 100 && r.Intn(3) == 0 {
			// the transaction has narrowed its own selection before it deletes by key
			g.emit(fmt.Sprintf("p %s select %s => count", tid, []string{"with:missing", "without:" + g.keyCol, g.filter()}[r.Intn(3)]))
			g.feat("delkey-after-filter")
		}
		out := g.emit(fmt.Sprintf("p %s delkey %s", tid, key))
		if out == "ok" {
			g.feat("delkey")
		}
	default:
		// re-key an existing row (in the key profile preferably one beyond the first chunk: absolute and
		// chunk-relative offsets differ there)
		off, ok := g.pickLive()
		{
			var far []uint32
			for _, o := range g.liveList() {
				if o >= 16384 {
					far = append(far, o)
				}
			}
			if len(far) > 0 && r.Intn(3) > 0 {
				off, ok = far[r.Intn(len(far))], true
				g.feat("rekey-chunk>=1")
			}
		}
		if ok && (g.p.dirty || !deleted[off]) {
			nk := g.keys[r.Intn(len(g.keys))]
			if !g.p.dirty && (g.txnSet["key|"+nk] && nk != key) {
				return
			}
			g.txnSet["key|"+nk] = true
			if r.Intn(3) == 0 {
				g.emit(fmt.Sprintf("p %s at %d rowkey:%s", tid, off, nk)) // through Row.SetKey
				g.feat("rekey-by-row-setkey")
			} else {
				g.emit(fmt.Sprintf("p %s at %d key:%s", tid, off, nk))
			}
			g.feat("rekey")
		}
	}
}

// mergeIndexed: values of the indexed column "mk" are set and then, in a transaction of its own, merged with a small
// delta (the default merge adds), so that they move across the index rule; the dump that follows compares the index
func (g *gen) mergeIndexed() {
	kind := ""
	for _, c := range g.cols {
		if c.name == "mk" {
			kind = c.kind
		}
	}
	l := g.liveList()
	if kind == "" || len(l) == 0 {
		return
	}
	var offs []uint32
	for i := 0; i < 3; i++ {
		o := l[g.r.Intn(len(l))]
		dup := false
		for _, x := range offs {
			dup = dup || x == o
		}
		if !dup {
			offs = append(offs, o)
		}
	}
	for _, phase := range []string{"set", "merge", "merge"} {
		g.nTxn++
		tid := fmt.Sprintf("m%d", g.nTxn)
		g.txnRes, g.txnSet = map[string]bool{}, map[string]bool{}
		g.emit("p begin " + tid)
		for _, o := range offs {
			g.emit(fmt.Sprintf("p %s at %d %s:mk:%s", tid, o, phase, g.numValue(kind, true)))
		}
		g.emit("p commit " + tid)
	}
	g.feat("merge-on-indexed-column")
	g.dumpAll()
}

// endsElsewhere: now and then the callback's last step is a nested point read of another row, which leaves the
// transaction's cursor there — what the operation itself writes afterwards (the key of a keyed insert, the
// insert marker) still belongs to its own row
func (g *gen) endsElsewhere() string {
	if g.r.Intn(5) != 0 {
		return ""
	}
	if off, ok := g.pickLive(); ok {
		g.feat("callback-ends-on-another-row")
		return fmt.Sprintf(" visit:%d", off)
	}
	return ""
}

// failingKeyed: the callback of a keyed insert / upsert fails — like failing plain inserts only in transactions
// that roll back (a failed insert inside a committing transaction is finding D9) or in the dirty profile
func (g *gen) failingKeyed() string {
	if g.p.wFailIns > 0 && g.r.Intn(10) < g.p.wFailIns && (g.p.dirty || g.txnRollback) {
		g.feat("failing-keyed-callback")
		return " fail"
	}
	return ""
}

func (g *gen) observe() {
	g.nTxn++
	tid := fmt.Sprintf("o%d", g.nTxn)
	g.emit("p begin " + tid)
	g.emit(fmt.Sprintf("p %s select => count", tid))
	if len(g.cols) > 0 {
		g.emit(fmt.Sprintf("p %s select => read:%s", tid, g.cols[g.r.Intn(len(g.cols))].name))
	}
	g.emit("p rollback " + tid)
	g.emit("p count")
	g.feat("observer-in-flight")
}

func (g *gen) bulk() {
	r := g.r
	g.nTxn++
	tid := fmt.Sprintf("b%d", g.nTxn)
	n := []int{3, 60, 64, 65, 130, 700}[r.Intn(6)]
	if g.p.wBulk >= 3 && r.Intn(6) == 0 && len(g.live) < 40000 {
		n = 16384 - len(g.live)%16384 + []int{-2, 0, 1, 70}[r.Intn(4)]
		if n <= 0 {
			n = 64
		}
		g.feat("bulk-to-chunk-edge")
	}
	g.emit("p begin " + tid)
	var offs []uint32
	for i := 0; i < n && !g.dead; i++ {
		var line string
		if g.keyCol != "" {
			line = fmt.Sprintf("p %s upskey %s %s", tid, hexOf([]byte(fmt.Sprintf("bulk%d-%d", g.nTxn, i))), g.actions(1, false))
		} else {
			k := 1
			if n > 1000 {
				k = r.Intn(2)
			}
			line = fmt.Sprintf("p %s insert %s", tid, g.actions(k, false))
		}
		out := g.emit(strings.TrimRight(line, " "))
		if off, ok := parseOff(out); ok {
			offs = append(offs, off)
		}
	}
	g.emit("p commit " + tid)
	for _, o := range offs {
		g.live[o] = true
		if o >= 16384 {
			g.feat("row-in-chunk>=1")
		}
	}
	g.feat("bulk-insert")
}

// punch holes: delete a run of rows so that later inserts re-use offsets
func (g *gen) holes() {
	l := g.liveList()
	if len(l) < 4 {
		return
	}
	g.nTxn++
	tid := fmt.Sprintf("h%d", g.nTxn)
	g.emit("p begin " + tid)
	n := 1 + g.r.Intn(70)
	start := g.r.Intn(len(l))
	var dels []uint32
	for i := 0; i < n && start+i < len(l); i++ {
		o := l[start+i]
		g.emit(fmt.Sprintf("p %s del %d", tid, o))
		dels = append(dels, o)
	}
	g.emit("p commit " + tid)
	for _, o := range dels {
		delete(g.live, o)
	}
	g.feat("holes")
}

// interleavedMarkers: one transaction whose row-marker buffer holds two separate parts for the same chunk:
// a delete in chunk c, a marker in another chunk, then an insert that re-uses a hole of chunk c
func (g *gen) interleavedMarkers() {
	var near, far []uint32
	for _, o := range g.liveList() {
		if o < 16384 {
			near = append(near, o)
		} else {
			far = append(far, o)
		}
	}
	if len(near) < 3 || len(far) < 1 {
		g.holes()
		return
	}
	a1, a2, b := near[g.r.Intn(len(near))], near[g.r.Intn(len(near))], far[g.r.Intn(len(far))]
	if a1 == a2 {
		return
	}
	g.nTxn++
	t1 := fmt.Sprintf("m%d", g.nTxn)
	g.emit("p begin " + t1)
	g.emit(fmt.Sprintf("p %s del %d", t1, a1)) // the hole
	g.emit("p commit " + t1)
	delete(g.live, a1)
	g.nTxn++
	t2 := fmt.Sprintf("m%d", g.nTxn)
	g.txnRes, g.txnSet = map[string]bool{}, map[string]bool{}
	g.emit("p begin " + t2)
	g.emit(fmt.Sprintf("p %s del %d", t2, a2))
	if g.r.Intn(2) == 0 {
		g.emit(fmt.Sprintf("p %s del %d", t2, b))
		delete(g.live, b)
	} else {
		g.emit(strings.TrimRight(fmt.Sprintf("p %s at %d %s", t2, b, g.actionsAt(b, 1)), " "))
		g.emit(fmt.Sprintf("p %s del %d", t2, far[0]))
		delete(g.live, far[0])
	}
	if g.keyCol != "" {
		g.emit(strings.TrimRight(fmt.Sprintf("p %s upskey %s %s", t2, hexOf([]byte(fmt.Sprintf("im%d", g.nTxn))), g.actions(1, false)), " "))
	} else {
		g.emit(strings.TrimRight(fmt.Sprintf("p %s insert %s", t2, g.actions(g.r.Intn(2), false)), " "))
	}
	g.emit("p commit " + t2)
	delete(g.live, a2)
	g.syncLive(g.emit("p dump"))
	g.feat("interleaved-marker-parts")
}

// adjacentMerges: one transaction merging into the same string (or numeric) column of several rows at
// consecutive offsets (the buffer holds a run of merge records with offset delta 1)
func (g *gen) adjacentMerges() {
	cands := g.colsOf(func(c genCol) bool { return c.kind == "string" || isNum(c.kind) })
	l := g.liveList()
	if len(cands) == 0 || len(l) < 3 {
		return
	}
	c := cands[g.r.Intn(len(cands))]
	for _, x := range cands {
		if x.kind == "string" && g.r.Intn(2) == 0 {
			c = x
		}
	}
	// a run of consecutive live offsets that are known to hold a value (finding D11 otherwise)
	var run []uint32
	for i := 0; i+1 < len(l); i++ {
		if l[i+1] == l[i]+1 && g.hasVal[l[i]][c.name] && g.hasVal[l[i+1]][c.name] {
			if len(run) == 0 {
				run = append(run, l[i])
			}
			if run[len(run)-1] == l[i] {
				run = append(run, l[i+1])
			}
			if len(run) >= 4 {
				break
			}
		} else if len(run) >= 2 {
			break
		} else {
			run = nil
		}
	}
	if len(run) < 2 && !g.p.dirty {
		// make the run: set then (next transaction) merge
		if len(l) < 3 {
			return
		}
		start := g.r.Intn(len(l) - 1)
		for i := start; i+1 < len(l) && len(run) < 3; i++ {
			if len(run) == 0 || l[i] == run[len(run)-1]+1 {
				run = append(run, l[i])
			} else {
				break
			}
		}
		if len(run) < 2 {
			return
		}
		g.nTxn++
		t0 := fmt.Sprintf("a%d", g.nTxn)
		g.emit("p begin " + t0)
		for _, o := range run {
			if isNum(c.kind) {
				g.emit(fmt.Sprintf("p %s at %d set:%s:%s", t0, o, c.name, g.numValue(c.kind, true)))
			} else {
				g.emit(fmt.Sprintf("p %s at %d set:%s:%s", t0, o, c.name, g.strValue(false)))
			}
		}
		g.emit("p commit " + t0)
	}
	g.nTxn++
	tid := fmt.Sprintf("a%d", g.nTxn)
	g.emit("p begin " + tid)
	for _, o := range run {
		if isNum(c.kind) {
			g.emit(fmt.Sprintf("p %s at %d merge:%s:%s", tid, o, c.name, g.numValue(c.kind, true)))
		} else {
			g.emit(fmt.Sprintf("p %s at %d merge:%s:%s", tid, o, c.name, g.strValue(false)))
		}
	}
	g.emit("p commit " + tid)
	g.syncLive(g.emit("p dump"))
	g.feat("adjacent-merges")
}

// filteredDelete: DeleteAll over a filtered selection, after reading an aggregate in the same transaction
// (a filter or aggregate that disturbs the selection shows in what gets deleted)
func (g *gen) filteredDelete() {
	if len(g.live) < 2 {
		return
	}
	g.nTxn++
	tid := fmt.Sprintf("f%d", g.nTxn)
	g.emit("p begin " + tid)
	f := g.filter()
	nums := g.colsOf(func(c genCol) bool { return isNum(c.kind) })
	if g.r.Intn(3) == 0 {
		// DeleteAll as the first selection call of its transaction: everything goes
		g.emit(fmt.Sprintf("p %s select => deleteall", tid))
		g.feat("unfiltered-deleteall")
	} else if len(nums) > 0 && g.r.Intn(2) == 0 {
		g.emit(fmt.Sprintf("p %s select %s => %s:%s", tid, f, []string{"sum", "min", "max", "avg"}[g.r.Intn(4)], nums[g.r.Intn(len(nums))].name))
		g.emit(fmt.Sprintf("p %s select => deleteall", tid))
	} else {
		g.emit(fmt.Sprintf("p %s select %s => deleteall", tid, f))
	}
	if g.r.Intn(4) == 0 {
		g.emit("p rollback " + tid)
	} else {
		g.emit("p commit " + tid)
	}
	g.syncLive(g.emit("p dump"))
	g.feat("filtered-deleteall")
}

func (g *gen) names(n int) string {
	var pool []string
	pool = append(pool, g.indexes...)
	for _, c := range g.cols {
		pool = append(pool, c.name)
	}
	pool = append(pool, "missing")
	var out []string
	for i := 0; i < n; i++ {
		out = append(out, pool[g.r.Intn(len(pool))])
	}
	return strings.Join(out, ",")
}

func (g *gen) filter() string {
	r := g.r
	switch x := r.Intn(12); {
	case x < 3:
		return "with:" + g.names(1+r.Intn(2))
	case x < 5:
		return "without:" + g.names(1+r.Intn(2))
	case x < 6:
		if !g.p.dirty {
			return "with:" + g.names(1)
		}
		return "union:" + g.names(1+r.Intn(3))
	case x < 8:
		return "withunion:" + g.names(1+r.Intn(3))
	case x < 10:
		nums := g.colsOf(func(c genCol) bool { return isNum(c.kind) })
		if len(nums) == 0 {
			return "with:" + g.names(1)
		}
		c := nums[r.Intn(len(nums))]
		pred := []string{"gt0", "lt0", "gt-3", "lt5", "eq0", "odd", "gt100"}[r.Intn(7)]
		switch {
		case c.kind == "float32" || c.kind == "float64":
			if pred == "odd" {
				pred = "gt1"
			}
			return fmt.Sprintf("float:%s:%s", c.name, pred)
		case strings.HasPrefix(c.kind, "uint"):
			return fmt.Sprintf("uint:%s:%s", c.name, pred)
		default:
			return fmt.Sprintf("int:%s:%s", c.name, pred)
		}
	case x < 11:
		strs := g.colsOf(func(c genCol) bool { return c.kind == "string" || c.kind == "enum" })
		if len(strs) == 0 {
			return "with:" + g.names(1)
		}
		c := strs[r.Intn(len(strs))]
		for _, x := range strs {
			if x.name == "fe" && r.Intn(2) == 0 {
				c = x // the filter profile's half-filled enum column
			}
		}
		if c.name == "fe" {
			return fmt.Sprintf("str:%s:%s", c.name, []string{"eq" + hexOf([]byte("red")), "pfx" + hexOf([]byte("r")), "pfx" + hexOf([]byte("g")), "len1", "len4"}[r.Intn(5)])
		}
		return fmt.Sprintf("str:%s:%s", c.name, []string{"eq" + hexOf([]byte("a")), "pfx" + hexOf([]byte("a")), "len1", "eq-"}[r.Intn(4)])
	default:
		cands := g.colsOf(func(c genCol) bool { return c.kind != "record" })
		if len(cands) == 0 {
			return "with:" + g.names(1)
		}
		c := cands[r.Intn(len(cands))]
		return fmt.Sprintf("val:%s:%s", c.name, []string{"len0", "len1", "len3", "pfx00"}[r.Intn(4)])
	}
}

func (g *gen) selectLine(tid string) {
	r := g.r
	n := r.Intn(4)
	var fs []string
	for i := 0; i < n; i++ {
		fs = append(fs, g.filter())
	}
	var action string
	switch x := r.Intn(10); {
	case x < 3:
		action = "range"
	case x < 4:
		action = "count"
	case x < 6 && len(g.cols) > 0:
		action = "read:" + g.cols[r.Intn(len(g.cols))].name
	case x < 9:
		nums := g.colsOf(func(c genCol) bool { return isNum(c.kind) })
		if len(nums) == 0 {
			action = "count"
		} else {
			action = []string{"sum", "avg", "min", "max"}[r.Intn(4)] + ":" + nums[r.Intn(len(nums))].name
		}
	default:
		if len(g.sorts) > 0 {
			action = "ascend:" + g.sorts[r.Intn(len(g.sorts))]
		} else {
			action = "range"
		}
	}
	g.emit(strings.TrimSpace(fmt.Sprintf("p %s select %s => %s", tid, strings.Join(fs, " "), action)))
	g.rep.count("select-filters=" + strconv.Itoa(n))
	g.rep.count("select-action=" + strings.Split(action, ":")[0])
	if n >= 2 {
		g.feat("filter-chain>=2")
	}
}

func (g *gen) readTxn() {
	g.nTxn++
	tid := fmt.Sprintf("q%d", g.nTxn)
	g.emit("p begin " + tid)
	if g.p.name == "C04" && g.r.Intn(3) == 0 {
		// aggregates over a selection whose values are all negative / all positive (a running extreme that starts from
		// the zero value shows here), in a transaction of its own
		g.emit(fmt.Sprintf("p %s select int:fn:%s => %s:fn", tid, []string{"lt0", "gt0"}[g.r.Intn(2)], []string{"max", "min", "sum", "avg"}[g.r.Intn(4)]))
		g.emit("p rollback " + tid)
		g.feat("aggregate-one-sign")
		return
	}
	k := 1 + g.r.Intn(3)
	for i := 0; i < k; i++ {
		g.selectLine(tid)
	}
	g.emit("p rollback " + tid)
}

func (g *gen) syncLive(dump string) {
	// nothing to do when rows are hashed; otherwise take the live set from the implementation
	for _, f := range strings.Fields(dump) {
		if strings.HasPrefix(f, "rows=") && !strings.HasPrefix(f, "rows=H") {
			// parse "rows=0{…} 1{…}" is spread over fields; handled below
		}
	}
	i := strings.Index(dump, "rows=")
	if i < 0 || strings.HasPrefix(dump[i:], "rows=H") {
		return
	}
	live := map[uint32]bool{}
	body := dump[i+5:]
	for _, f := range strings.Fields(body) {
		j := strings.Index(f, "{")
		if j <= 0 {
			if strings.Contains(f, "=") {
				break
			}
			continue
		}
		if v, err := strconv.ParseUint(f[:j], 10, 32); err == nil {
			live[uint32(v)] = true
		}
	}
	g.live = live
	if d, ok := parseDump(dump); ok && !d.hashed {
		g.hasVal = map[uint32]map[string]bool{}
		for off, r := range d.rows {
			m := map[string]bool{}
			for c := range r {
				m[c] = true
			}
			g.hasVal[off] = m
		}
	}
}

func (g *gen) dumpAll() {
	d := g.emit("p dump")
	g.syncLive(d)
	if g.hasRep {
		g.emit("r replay p")
		g.emit("r dump")
		g.feat("replica-compared")
	}
}

func (g *gen) snapshotCycle() {
	g.syncLive(g.emit("p dump"))
	g.emit("p statehash") // byte-exact tie of writeState (ids by rank)
	if (g.r.Intn(3) == 0 || (g.p.name == "C08" && g.r.Intn(5) > 0)) && len(g.live) > 0 && len(g.cols) > 0 {
		// a transaction commits while the snapshot is in progress (after the chunk states were written): it is in the
		// recorded log of the file and Restore replays it — in every chunk, for every width and kind
		g.nTxn++
		tid := fmt.Sprintf("w%d", g.nTxn)
		g.txnRes, g.txnSet = map[string]bool{}, map[string]bool{}
		g.emit("p begin " + tid)
		n := 1 + g.r.Intn(4)
		markersOnly := g.r.Intn(3) == 0
		for i := 0; i < n; i++ {
			if markersOnly {
				// a transaction of row markers only (deletes, inserts with an empty callback): no column is written
				if off, ok := g.pickLive(); ok && g.r.Intn(2) == 0 && !g.txnSet[fmt.Sprintf("del|%d", off)] {
					g.txnSet[fmt.Sprintf("del|%d", off)] = true
					g.emit(fmt.Sprintf("p %s del %d", tid, off))
				} else {
					g.emit(fmt.Sprintf("p %s insert", tid))
				}
				g.feat("snapshot-with-marker-only-commit")
				continue
			}
			if off, ok := g.pickLive(); ok {
				if a := g.actionsAt(off, 1+g.r.Intn(2)); a != "" {
					g.emit(strings.TrimRight(fmt.Sprintf("p %s at %d %s", tid, off, a), " "))
				}
			}
		}
		// every numeric width merges through its own Swap function: the 16- and 32-bit columns of the all-kinds
		// schema get a merge on a row that holds a value (beyond the first chunk when there is one)
		for _, cn := range []string{"k16", "kn", "kf", "ku"} {
			if markersOnly {
				break
			}
			var cand []uint32
			for _, o := range g.liveList() {
				if g.hasVal[o][cn] && !g.txnSet[fmt.Sprintf("%d|%s", o, cn)] {
					cand = append(cand, o)
				}
			}
			if len(cand) > 0 {
				o := cand[len(cand)-1]
				w := map[string]string{"k16": "0003", "kn": "00000005", "kf": "3fc00000", "ku": "0009"}[cn] // kf: +1.5
				g.emit(fmt.Sprintf("p %s at %d merge:%s:%s", tid, o, cn, w))
			}
		}
		g.emit("p snapshot s with " + tid)
		g.syncLive(g.emit("p dump")) // what the restored collection must equal
		g.feat("snapshot-with-commit-in-flight")
	} else {
		g.emit("p snapshot s")
	}
	caps := []int{0, 1, 64, 1024, 70000}
	g.emit(fmt.Sprintf("new q cap=%d logger=none", caps[g.r.Intn(len(caps))]))
	if g.keyCol != "" {
		g.emit("q col " + g.keyCol + " key")
	}
	// same schema in the same registry order is not required by the code (buffers are named);
	// the generator re-creates columns in creation order
	all := g.schemaLines()
	for _, l := range all {
		g.emit("q " + l)
	}
	g.emit("q restore s")
	g.emit("q dump")
	g.feat("snapshot-restore")
	if len(g.live) > 16384 {
		g.feat("snapshot-restore-multichunk")
	}
}

// schemaLines returns the lines that re-create the current schema (without the key column)
func (g *gen) schemaLines() []string {
	var out []string
	for _, l := range g.lines {
		if !strings.HasPrefix(l, "p ") {
			continue
		}
		f := strings.Fields(l)
		if len(f) < 3 {
			continue
		}
		switch f[1] {
		case "col":
			if f[3] == "key" {
				continue
			}
			alive := false
			for _, c := range g.cols {
				if c.name == f[2] {
					alive = true
				}
			}
			if alive {
				out = append(out, strings.Join(f[1:], " "))
			}
		case "index":
			if containsStr(g.indexes, f[2]) {
				out = append(out, strings.Join(f[1:], " "))
			}
		case "sortindex":
			if containsStr(g.sorts, f[2]) {
				out = append(out, strings.Join(f[1:], " "))
			}
		case "trigger":
			if containsStr(g.trigs, f[2]) {
				out = append(out, strings.Join(f[1:], " "))
			}
		}
	}
	return out
}

func (g *gen) lateColumn() {
	if len(g.cols) >= 8 {
		return
	}
	if g.p.name == "C01" && g.r.Intn(2) == 0 && len(g.live) > 0 {
		// a column of each kind created after rows exist is written at once on the highest rows (a new column must
		// cover every offset in use, also when deletes have pushed the row count below the highest offset): the
		// kind rotates with the case number, bool and the text kinds included
		if l := g.liveList(); len(l) >= 100 && g.r.Intn(2) == 0 {
			// first a hole of 70 rows at the low end: the row count falls more than a bitmap word below the highest offset
			g.nTxn++
			tid := fmt.Sprintf("H%d", g.nTxn)
			g.emit("p begin " + tid)
			for _, o := range l[:70] {
				g.emit(fmt.Sprintf("p %s del %d", tid, o))
			}
			g.emit("p commit " + tid)
			for _, o := range l[:70] {
				delete(g.live, o)
				delete(g.hasVal, o)
			}
			g.feat("late-column-after-large-hole")
		}
		kinds := append(append([]string(nil), numKinds...), "bool", "bool", "string", "enum", "record")
		kind := kinds[(g.caseID+g.nCol)%len(kinds)]
		if g.r.Intn(2) == 0 {
			kind = "bool" // the one kind whose storage is a single bitmap over all offsets
		}
		c := genCol{fmt.Sprintf("c%d", g.nCol), kind, ""}
		g.nCol++
		g.addCol(c)
		l := g.liveList()
		top := l
		if len(top) > 4 {
			top = top[len(top)-4:]
		}
		g.nTxn++
		tid := fmt.Sprintf("L%d", g.nTxn)
		g.txnRes, g.txnSet = map[string]bool{}, map[string]bool{}
		g.emit("p begin " + tid)
		for _, o := range top {
			switch {
			case kind == "bool":
				g.emit(fmt.Sprintf("p %s at %d bool:%s:1", tid, o, c.name))
			case isNum(kind):
				g.emit(fmt.Sprintf("p %s at %d set:%s:%s", tid, o, c.name, g.numValue(kind, true)))
			case kind == "enum":
				g.emit(fmt.Sprintf("p %s at %d set:%s:%s", tid, o, c.name, g.enumValue()))
			case kind == "record":
				g.emit(fmt.Sprintf("p %s at %d set:%s:%s", tid, o, c.name, g.recValue()))
			default:
				g.emit(fmt.Sprintf("p %s at %d set:%s:%s", tid, o, c.name, g.strValue(false)))
			}
		}
		g.emit("p commit " + tid)
		g.feat("late-column-written-on-top-rows")
		g.dumpAll()
	} else {
		g.addRandomCol()
	}
	if len(g.live) > 0 {
		g.feat("column-created-after-rows")
	}
	if len(g.live) > 16384 {
		g.feat("column-created-after-rows-multichunk")
	}
}

func genStoreCase(r *rand.Rand, p profile, rep *Report, id int) Case {
	if p.name == "C11" {
		// "no stale data at a reused offset" includes what the computed columns keep per offset: a third of the
		// histories run with a sorted index and bitmap indexes, a third with a key column
		switch r.Intn(3) {
		case 0:
			p.wSort, p.wIndex, p.wBulk = 100, 3, 1 // few bulk loads: the sorted index (and its model) pays per entry
			rep.count("C11 variant=sorted+indexes")
		case 1:
			p.wKey, p.wIndex, p.wBulk = 100, 1, 1
			rep.count("C11 variant=key")
		default:
			rep.count("C11 variant=plain")
		}
	}
	g := &gen{r: r, p: p, impl: newStoreImpl().(*storeImpl), feats: map[string]bool{}, rep: rep, live: map[uint32]bool{}, idxOn: map[string]string{},
		hasVal: map[uint32]map[string]bool{}, txnRes: map[string]bool{}, txnSet: map[string]bool{}}
	defer g.impl.Close()
	g.caseID = id
	g.setup()
	steps := 6 + r.Intn(p.maxSteps)
	if p.wSort >= 100 && r.Intn(2) == 0 {
		g.addSort() // index before the data; otherwise it is created mid-history, after the data
	}
	for i := 0; i < steps && !g.dead; i++ {
		if p.wSort >= 100 && len(g.sorts) == 0 && i >= steps/2 {
			g.addSort()
		}
		total := 30 + p.wIndex + p.wFilter + p.wSort/20 + p.wTrigger/10 + p.wSnapshot + p.wBulk + 3
		x := r.Intn(total)
		switch {
		case x < 22:
			g.txn()
			if r.Intn(2) == 0 && len(g.live) < 3000 {
				g.dumpAll()
			}
		case x < 24:
			pick := r.Intn(4)
			if p.name == "C02" && r.Intn(2) == 0 {
				pick = 0
			}
			if (p.name == "C03" || p.name == "C04" || p.name == "C19") && r.Intn(2) == 0 {
				pick = 4
			}
			switch pick {
			case 4:
				g.mergeIndexed()
			case 0:
				g.filteredDelete()
			case 1:
				g.interleavedMarkers()
			case 2:
				g.adjacentMerges()
			default:
				g.holes()
			}
		case x < 27:
			g.dumpAll()
		case x < 28:
			g.lateColumn()
		case x < 30:
			if p.name == "C01" && r.Intn(2) == 0 {
				g.lateColumn()
			} else {
				g.readTxn()
			}
		case x < 30+p.wIndex:
			if r.Intn(4) == 0 {
				g.dropIndex()
			} else if len(g.indexes) < 5 {
				g.addIndex()
			}
		case x < 30+p.wIndex+p.wFilter:
			g.readTxn()
		case x < 30+p.wIndex+p.wFilter+p.wSort/20:
			if len(g.sorts) < 2 {
				g.addSort()
			}
		case x < 30+p.wIndex+p.wFilter+p.wSort/20+p.wTrigger/10:
			if r.Intn(4) == 0 {
				g.dropTrigger()
			} else if len(g.trigs) < 3 {
				g.addTrigger()
			}
		case x < 30+p.wIndex+p.wFilter+p.wSort/20+p.wTrigger/10+p.wSnapshot:
			g.snapshotCycle()
		case x < 30+p.wIndex+p.wFilter+p.wSort/20+p.wTrigger/10+p.wSnapshot+p.wBulk:
			g.bulk()
		default:
			if p.wTrigger > 0 && len(g.trigs) < 3 {
				g.addTrigger()
			} else {
				g.txn()
			}
		}
	}
	if !g.dead {
		g.dumpAll()
		if p.wSnapshot > 0 {
			g.snapshotCycle()
		}
		g.readTxn()
	}
	var fs []string
	for f := range g.feats {
		fs = append(fs, f)
	}
	sort.Strings(fs)
	keep := 0
	for i, l := range g.lines {
		if strings.Contains(l, " begin ") {
			keep = i
			break
		}
	}
	return Case{Name: fmt.Sprintf("%s-%d", p.name, id), Lines: g.lines, Features: fs, Keep: keep}
}

func runStore(rep *Report, replay string) {
	r := rand.New(rand.NewSource(rep.Seed))
	var cases []Case
	if replay != "" {
		cases = replayCases(replay)
	} else {
		cases = append(cases, corpus("store")...)
		p, ok := profiles[rep.Property]
		if !ok {
			p = profiles["C01"]
		}
		n := 40
		if rep.Tier == "thorough" {
			n = 800
		}
		if p.wKey >= 100 {
			n *= 5 // keyed histories are short (no bulk steps): more of them for the same cost
		}
		if p.name == "C02" {
			n *= 3 // short histories as well
		}
		switch p.name {
		case "C03", "C04", "C06", "C15", "C16", "C19":
			n *= 2 // cheap profiles: twice the histories, so that detection depends less on the seed
		}
		if v := envInt("VERIF_CASES"); v > 0 {
			n = v
		}
		for i := 0; i < n; i++ {
			cases = append(cases, genStoreCase(r, p, rep, i))
		}
		// the "dirty" stream: histories that may contain the known-finding patterns; model comparison only
		nd := n / 4
		for i := 0; i < nd; i++ {
			cases = append(cases, genStoreCase(r, profiles["dirty"], rep, i))
		}
	}
	rep.Rule = "histories generated adaptively against the implementation (profile " + rep.Property + "): random schema over the 16 column kinds with named merge functions, Capacity ∈ {default,1,64,100,1024,20000,70000}, logger ∈ {none,channel,log}; steps = transactions of 1–8 row ops (insert/update/merge/delete/key ops, commit or rollback), bulk inserts up to a 16K-chunk edge, hole punching, late columns, indexes/sorted indexes/triggers created and dropped, filter chains, dumps, replica replay, snapshot→restore; plus a 'dirty' stream allowing the known-finding patterns; non-trivial = the case exercised at least one tracked feature (multi-chunk rows, several writes to one row, merge, delete+reuse, index after data, rollback, replica, snapshot, …); distinct = by SHA-1 of the script"
	runScripted(rep, "store", newStoreImpl, cases, storeOracle(rep.Property), 1)
}

func envInt(name string) int {
	v, _ := strconv.Atoi(strings.TrimSpace(getenv(name)))
	return v
}
